"""C06 - cryptographic operations compute what they claim (structural part only)."""
import ast
import re

from ..astutil import (U, dotted, get_class, get_method, methods, walk_local, is_self_attr, call_name, short, enum_member, params, bind_args)
from ..cfg import CFG, calls_at
from ..dataflow import ReachingDefs, node_of_expr
from ..guards import call_nodes, dominating_edges, cmp_parts
from ..engmodel import EngineModel, ENGINE, CRYPTO
from ..index import Index
from ..source import AnalysisError

EXPLANATION = (
    "PARTIAL (structural) check of the cryptography engine - results of cryptographic computations are run-time values that no static argument "
    "in reach can compare with a reference implementation. Decided: (R1) each of the eight enum->primitive lookup tables maps every key to the "
    "primitive of the same name (normalised, with a reviewed alias list), the signature table to (hash of the name, RSA); (R2) the encrypt/decrypt "
    "and sign/verify sibling functions agree on algorithm and mode tables, the set of padded modes, padding constructions, IV/AAD/tag handling, and "
    "pad-before-encrypt / unpad-after-decrypt order; (R3) at each of the engine's crypto call sites the enumeration class of the payload field "
    "bound to a parameter equals the class the callee looks that parameter up with; (R4) generated key material and IVs come from os.urandom / "
    "rsa.generate_private_key inside the call with the requested length expression, and the engine keeps no cached state.")

T_ALIAS = {'RC4': 'ARC4', 'PKCS5': 'PKCS7', 'NIST_KEY_WRAP': 'AES_KEY_WRAP', 'AES_KEY_WRAP_PADDING': 'AES_KEY_WRAP_WITH_PADDING'}      # KMIP name -> cryptography API name (same primitive)
ATTRS = 'kmip/core/attributes.py'


def norm(s):
    return re.sub(r'[^A-Z0-9]', '', s.upper())


def table_literals(init):
    """self.<T> = {literal}; also the derived form  self.<T> = dict(self.<U>) [; self.<T>.update({literal})]  - the entries of U plus the
    update literal (each entry is judged where it is written)"""
    out = {}
    derived = {}
    for n in walk_local(init):
        if isinstance(n, ast.Assign) and is_self_attr(n.targets[0]) and isinstance(n.value, ast.Dict):
            out[n.targets[0].attr] = n
        elif isinstance(n, ast.Assign) and is_self_attr(n.targets[0]) and isinstance(n.value, ast.Call) and (call_name(n.value) in ('dict', 'copy.copy') or U(n.value.func).endswith('.copy')):
            base = n.value.args[0] if n.value.args else (n.value.func.value if isinstance(n.value.func, ast.Attribute) else None)
            if is_self_attr(base) and not n.value.keywords:
                derived[n.targets[0].attr] = (n, base.attr, [])
        elif isinstance(n, ast.Expr) and isinstance(n.value, ast.Call) and isinstance(n.value.func, ast.Attribute) and n.value.func.attr == 'update' \
                and is_self_attr(n.value.func.value) and n.value.func.value.attr in derived and len(n.value.args) == 1 and isinstance(n.value.args[0], ast.Dict):
            derived[n.value.func.value.attr][2].append(n.value.args[0])
    for name, (n, base, ups) in derived.items():
        if base in out and name not in out:
            d = ast.Dict(keys=list(out[base].value.keys), values=list(out[base].value.values))
            for u in ups:
                d.keys += u.keys
                d.values += u.values
            new = ast.Assign(targets=n.targets, value=ast.copy_location(d, n))
            out[name] = ast.copy_location(new, n)
    return out


def calls_text(fn, pred):
    return sorted(set(' '.join(U(c).split()) for c in walk_local(fn) if isinstance(c, ast.Call) and pred(c)))


def bind_args_simple(c):
    return [U(a) for a in c.args]


def is_none_test_of(test, name):
    """'notnone' for `name is not None`, 'none' for `name is None`, else None."""
    if isinstance(test, ast.Compare) and len(test.ops) == 1 and isinstance(test.left, ast.Name) and test.left.id == name and isinstance(test.comparators[0], ast.Constant) and test.comparators[0].value is None:
        if isinstance(test.ops[0], ast.IsNot):
            return 'notnone'
        if isinstance(test.ops[0], ast.Is):
            return 'none'
    return None



def check_padding_always_applied(ctx, cls):
    """C06.R9: with a padding method the padder / unpadder always runs and its verdict stands."""
    ctx.rule('C06.R9', 'in CryptographyEngine._handle_symmetric_padding a padder or unpadder that was built is always run to the end - every path from its construction to a normal return passes its finalize() - and a failure of finalize() is not swallowed: PKCS5 / ANSI X.923 pad every message, also one that already fills whole blocks (a whole block of padding is added), so skipping the padder for aligned input, or returning the text as it is when the padding cannot be removed, produces cipher text that differs from the reference cipher and plain text that does not survive Decrypt(Encrypt(m))')
    fn = get_method(cls, '_handle_symmetric_padding')
    g = CFG(fn)
    rd = ReachingDefs(g)
    site = '%s:%s CryptographyEngine._handle_symmetric_padding' % (CRYPTO, fn.lineno)
    builds = []
    for n in g.nodes:
        if n.kind == 'stmt' and isinstance(n.stmt, ast.Assign) and len(n.stmt.targets) == 1 and isinstance(n.stmt.targets[0], ast.Name):
            for c in calls_at(n):
                if isinstance(c.func, ast.Attribute) and c.func.attr in ('padder', 'unpadder'):
                    builds.append((n, n.stmt.targets[0].id, c.func.attr))
    ctx.count('padder_constructions', len(builds), 1)
    pvars = set(v for _, v, _ in builds)
    fins = [n for n in g.nodes for c in calls_at(n) if isinstance(c.func, ast.Attribute) and c.func.attr == 'finalize' and isinstance(c.func.value, ast.Name) and c.func.value.id in pvars]
    ups = [n for n in g.nodes for c in calls_at(n) if isinstance(c.func, ast.Attribute) and c.func.attr == 'update' and isinstance(c.func.value, ast.Name) and c.func.value.id in pvars]
    # the lookups of the padding table: once the requested method was found there, a padder runs
    lookups = [n for n in g.nodes if n.stmt is not None and n.kind != 'test' for c in calls_at(n) if U(c.func) == 'self._symmetric_padding_methods.get']
    lookups += [n for n in g.nodes if n.stmt is not None and n.kind != 'test' for x in ast.walk(n.stmt) if isinstance(x, ast.Subscript) and U(x.value) == 'self._symmetric_padding_methods']
    member = [(m_, n) for n in g.nodes if n.kind == 'test' and isinstance(n.stmt, ast.Compare) and len(n.stmt.ops) == 1 and isinstance(n.stmt.ops[0], ast.In) and '_symmetric_padding_methods' in U(n.stmt.comparators[0]) for m_, l in n.succ if l == 'true']
    ctx.need(bool(lookups or member), 'C06.R9: the lookup of the requested padding method in self._symmetric_padding_methods was not found in _handle_symmetric_padding')
    starts = [(m_, n) for n in lookups for m_, l in n.succ if l != 'exc'] + member
    bad = [n for m_, n in starts if not (fins and ups and g.all_paths_pass(m_, g.exit, fins, labels_excluded=('exc',)) and g.all_paths_pass(m_, g.exit, ups, labels_excluded=('exc',)))]
    ctx.check(not bad, 'C06.R9', 'CryptographyEngine._handle_symmetric_padding|padding always run', '%s:%s CryptographyEngine._handle_symmetric_padding' % (CRYPTO, bad[0].line if bad else fn.lineno),
              'every path from the lookup of a supported padding method to the return runs update() and finalize() of a padder / unpadder (%d lookup site(s), %d finalize site(s))' % (len(starts), len(fins)),
              'a path from the lookup of a supported padding method reaches the return without running a padder / unpadder to the end: for some inputs (a message that fills whole blocks ...) the padding is not applied / not removed')
    for fnode in fins:
        swallowed = any(not any(isinstance(x, ast.Raise) for s_ in h.body for x in ast.walk(s_)) for tr in fnode.tries for h in tr.handlers)
        ctx.check(not swallowed, 'C06.R9', 'CryptographyEngine._handle_symmetric_padding|finalize failure stands', '%s:%s CryptographyEngine._handle_symmetric_padding' % (CRYPTO, fnode.line), 'a failure of finalize() propagates',
                  'an exception of finalize() is caught and the function goes on (the text is returned as it was): malformed padding is accepted and a plain text that merely ends in pad-like bytes is truncated')


def fold_derive_key_inputs(ctx, m):
    """C06.R10: what reaches derive_key as key material and as derivation data, folded over small lists of base objects."""
    from ..fold import Folder, Unfoldable, Raised, Opaque, Enum
    from ..polmodel import enum_table, all_enum_tables
    ctx.rule('C06.R10', 'DeriveKey hands the derivation function the inputs the request names: folded over every list of 1-3 base objects (Symmetric Key / Secret Data in every order) with and without Derivation Data in the request, key_material is the value of the FIRST object, derivation_data is the request\'s Derivation Data when present, otherwise the value of the first Secret Data object AFTER the first object, otherwise None - never the value of the keying object itself (HKDF(ikm=S, info=S) is not HKDF(ikm=S))')
    fn = m.method('_process_derive_key')
    site = m.site(fn, fn)
    body = fn.body
    calls = [c for c in walk_local(fn) if isinstance(c, ast.Call) and U(c.func).endswith('.derive_key')]
    ctx.need(len(calls) == 1, 'unrecognised construct: _process_derive_key no longer calls <crypto engine>.derive_key once')
    call = calls[0]
    lists = [s_ for s_ in body if isinstance(s_, ast.Assign) and len(s_.targets) == 1 and isinstance(s_.targets[0], ast.Name) and isinstance(s_.value, (ast.List, ast.Call)) and U(s_.value) in ('[]', 'list()')]
    loops = [s_ for s_ in body if isinstance(s_, ast.For) and U(s_.iter).endswith('.unique_identifiers')]
    def top(node):
        x = node
        while getattr(x, '_parent', None) is not None and x._parent is not fn:
            x = x._parent
        return x
    tcall = top(call)
    if len(loops) != 1 or tcall not in body:
        # the same two statements one or more blocks further in (guard clauses written as if / else: the rest of the handler sits in the else arm)
        for blk_owner in ast.walk(fn):
            for fld_ in ('body', 'orelse', 'finalbody'):
                blk = getattr(blk_owner, fld_, None)
                if not (isinstance(blk, list) and blk and isinstance(blk[0], ast.stmt)) or blk is fn.body:
                    continue
                lp_ = [s_ for s_ in blk if isinstance(s_, ast.For) and U(s_.iter).endswith('.unique_identifiers')]
                tc_ = [s_ for s_ in blk if any(x is call for x in ast.walk(s_))]
                if len(lp_) == 1 and len(tc_) == 1:
                    body, loops, tcall = blk, lp_, tc_[0]
                    lists = [s_ for s_ in ast.walk(fn) if isinstance(s_, ast.Assign) and len(s_.targets) == 1 and isinstance(s_.targets[0], ast.Name) and isinstance(s_.value, (ast.List, ast.Call)) and U(s_.value) in ('[]', 'list()')]
    if len(loops) != 1 or tcall not in body or body.index(loops[0]) >= body.index(tcall):
        ctx.need(False, 'unrecognised construct: _process_derive_key no longer collects its base objects in one loop over payload.unique_identifiers before the derive_key call')
    apps = [c.func.value.id for c in ast.walk(loops[0]) if isinstance(c, ast.Call) and isinstance(c.func, ast.Attribute) and c.func.attr == 'append' and isinstance(c.func.value, ast.Name)]
    ctx.need(len(set(apps)) == 1, 'unrecognised construct: the base objects of _process_derive_key are not collected in one list')
    lst = apps[0]
    pay = params(fn)[0]
    frag = body[body.index(loops[0]) + 1: body.index(tcall) + 1]
    kinds = ('SYMMETRIC_KEY', 'SECRET_DATA')
    import itertools

    class Stop(Exception):
        pass
    n = 0
    bad = None
    try:
        for k in (1, 2, 3):
            for combo in itertools.product(kinds, repeat=k):
                for given in (None, 'DD'):
                    got = []

                    def model(*a, **kw):
                        got.append(kw)
                        raise Stop()
                    f = Folder(models={U(call.func): model}, steps=40000, methods=m.methods)
                    f.enum_tables = {k_: list(v_) for k_, v_ in all_enum_tables(ctx.src).items()}
                    f.enum_values = {k_: dict(v_) for k_, v_ in all_enum_tables(ctx.src).items()}
                    objs = [{'__attrs__': ('_object_type', 'object_type', 'value', 'unique_identifier', 'cryptographic_usage_masks', 'state'), '_object_type': Enum('ObjectType', t_), 'object_type': Enum('ObjectType', t_),
                             'value': 'V%d' % i, 'unique_identifier': i, 'cryptographic_usage_masks': [Enum('CryptographicUsageMask', 'DERIVE_KEY')], 'state': Enum('State', 'ACTIVE')} for i, t_ in enumerate(combo)]
                    cp = {'__attrs__': ('hashing_algorithm', 'block_cipher_mode', 'padding_method', 'cryptographic_algorithm'), 'hashing_algorithm': Opaque('h'), 'block_cipher_mode': Opaque('b'), 'padding_method': Opaque('p'), 'cryptographic_algorithm': Opaque('a')}
                    dp = {'__attrs__': ('derivation_data', 'initialization_vector', 'cryptographic_parameters', 'salt', 'iteration_count'), 'derivation_data': given, 'initialization_vector': None,
                          'cryptographic_parameters': cp, 'salt': None, 'iteration_count': None}
                    env = {'self': {'__attrs__': ('_logger', '_cryptography_engine'), '_logger': Opaque('logger'), '_cryptography_engine': Opaque('crypto')},
                           pay: {'__attrs__': ('derivation_parameters', 'object_type', 'derivation_method', 'unique_identifiers', 'template_attribute'), 'derivation_parameters': dp, 'object_type': Enum('ObjectType', 'SECRET_DATA'),
                                 'derivation_method': Opaque('method'), 'unique_identifiers': [str(i) for i in range(k)], 'template_attribute': Opaque('ta')},
                           lst: objs, 'logging': {'__attrs__': ('DEBUG', 'INFO', 'WARNING', 'ERROR'), 'DEBUG': 10, 'INFO': 20, 'WARNING': 30, 'ERROR': 40}}
                    f.models['self._logger.isEnabledFor'] = lambda *a: False
                    f._globals['logging'] = env['logging']
                    if isinstance(loops[0].target, ast.Name):
                        env[loops[0].target.id] = objs[-1]
                    # names bound before the fragment (the attribute dictionary of the template) are length / algorithm carriers only
                    for s_ in sorted([x_ for x_ in ast.walk(fn) if isinstance(x_, ast.Assign) and getattr(x_, 'lineno', 0) < loops[0].lineno], key=lambda x_: x_.lineno):
                        for t_ in (s_.targets if isinstance(s_, ast.Assign) else []):
                            if isinstance(t_, ast.Name) and t_.id not in env:
                                if 'attr' in t_.id:
                                    env[t_.id] = {'Cryptographic Length': {'__attrs__': ('value',), 'value': 128}, 'Cryptographic Algorithm': {'__attrs__': ('value',), 'value': Opaque('alg')}}
                                    continue
                                try:
                                    env[t_.id] = f.ev(s_.value, env)
                                except (Unfoldable, Raised):
                                    env[t_.id] = Opaque(t_.id)
                    try:
                        f.run(frag, env)
                    except Stop:
                        pass
                    except Raised as ex:
                        bad = bad or '%s raised for base objects %s' % (ex.name, list(combo))
                        continue
                    if len(got) != 1 or 'key_material' not in got[0] or 'derivation_data' not in got[0]:
                        return None
                    want_dd = given if given is not None else next(('V%d' % i for i, t_ in enumerate(combo) if i >= 1 and t_ == 'SECRET_DATA'), None)
                    n += 1
                    if got[0]['key_material'] != 'V0' or got[0]['derivation_data'] != want_dd:
                        bad = bad or 'base objects %s, Derivation Data %s: key_material=%r derivation_data=%r, expected key_material=\'V0\' derivation_data=%r (V<i> = value of the i-th object)' % (
                            list(combo), 'given' if given else 'absent', got[0]['key_material'], got[0]['derivation_data'], want_dd)
    except Unfoldable as ex:
        ctx.count('derive_key_selection_unfoldable', 1)
        ctx.note('C06.R10: not foldable: %s' % ex)
        return None
    ctx.count('derive_key_input_selections_folded', n)
    ctx.check(bad is None, 'C06.R10', 'KmipEngine._process_derive_key|inputs handed to derive_key', site, 'key material and derivation data are the ones the request names (%d combinations folded)' % n,
              'the inputs handed to the derivation function are not the ones the request names: %s' % bad)
    return True

def run(ctx):
    src = ctx.src
    t = src.tree(CRYPTO)
    cls = get_class(t, 'CryptographyEngine')
    ms = methods(cls)
    for rid, text in (
        ('C06.R1', 'every entry of the enum -> primitive lookup tables maps to the primitive whose normalised name equals the normalised member name (aliases RC4=ARC4, PKCS5=PKCS7, HMAC_<H> -> <H>); signature algorithms map to (hash named in the member, RSA)'),
        ('C06.R2', 'encrypt/decrypt (symmetric and asymmetric) and sign/verify_signature agree on tables, padded-mode set, padding constructions, IV/AAD/tag handling; padding precedes encryption and unpadding follows decryption'),
        ('C06.R3', 'at the engine call sites the enum class of each payload/parameters field equals the enum class with which the bound crypto-engine parameter is looked up or compared'),
        ('C06.R4', 'generated keys and IVs derive from os.urandom / rsa.generate_private_key within the call, sized by the requested length; CryptographyEngine stores no state outside __init__'),
    ):
        ctx.rule(rid, text)
    init = get_method(cls, '__init__')
    tabs = table_literals(init)
    ctx.count('lookup_tables', len(tabs), 8)
    n_entries = 0
    table_keyclass = {}
    for tname, node in sorted(tabs.items()):
        d = node.value
        kc = set()
        for k, v in zip(d.keys, d.values):
            n_entries += 1
            em = enum_member(k)
            site = '%s:%s CryptographyEngine.__init__ %s' % (CRYPTO, k.lineno, tname)
            if em is None:
                ctx.fail('C06.R1', 'CryptographyEngine.%s|key %s' % (tname, U(k)), site, 'table key is not an enumeration constant')
                continue
            kc.add(em[0])
            member = em[1]
            key = 'CryptographyEngine.%s|%s' % (tname, member)
            if isinstance(v, ast.Tuple) and len(v.elts) == 2:
                # (hash, algorithm) for <HASH>_WITH_<ALG>_ENCRYPTION
                m_ = re.match(r'^([A-Z0-9_]+?)_WITH_([A-Z0-9]+)_ENCRYPTION$', member)
                h = dotted(v.elts[0]) or ''
                a = enum_member(v.elts[1])
                ok = bool(m_) and norm(h.split('.')[-1]) == norm(m_.group(1)) and a is not None and a[0] == 'CryptographicAlgorithm' and a[1] == m_.group(2)
                ctx.check(ok, 'C06.R1', key, site, '%s -> (%s, %s)' % (member, h, a[1] if a else None), 'signature algorithm %s is mapped to (%s, %s)' % (member, h, U(v.elts[1])))
                continue
            target = dotted(v) or U(v)
            leaf = target.split('.')[-1]
            want = member
            if want.startswith('HMAC_'):
                want = want[5:]
            want_n = norm(T_ALIAS.get(want, want))
            if is_self_attr(v):
                # method reference: _create_<alg>_key_pair
                ok = norm(member) in norm(leaf)
            else:
                ok = norm(leaf) == want_n
            ctx.check(ok, 'C06.R1', key, site, '%s -> %s' % (member, target), 'lookup table %s maps %s to %s: a different primitive than the one requested' % (tname, member, target))
        table_keyclass[tname] = kc
        ctx.check(len(kc) == 1, 'C06.R1', 'CryptographyEngine.%s|homogeneous-keys' % tname, '%s:%s' % (CRYPTO, node.lineno), 'keys are members of %s' % sorted(kc), 'table keys mix enumeration classes %s' % sorted(kc))
    ctx.count('table_entries', n_entries, 35)

    # ---------------- R2 siblings
    def pair(a, b):
        return get_method(cls, a), get_method(cls, b)
    enc, dec = pair('_encrypt_symmetric', '_decrypt_symmetric')

    def tables_used(fn):
        return sorted(set(n.attr for n in walk_local(fn) if is_self_attr(n) and n.attr in tabs))

    def padded_modes(fn):
        out = []
        for n in walk_local(fn):
            if isinstance(n, ast.Compare) and isinstance(n.ops[0], ast.In) and isinstance(n.comparators[0], (ast.List, ast.Tuple, ast.Set)):
                ms_ = [enum_member(x, 'BlockCipherMode') for x in n.comparators[0].elts]
                if ms_ and all(ms_):
                    out.append(sorted(x[1] for x in ms_))
        return out
    esite = '%s:%s CryptographyEngine._encrypt_symmetric/_decrypt_symmetric' % (CRYPTO, enc.lineno)
    ctx.check(tables_used(enc) == tables_used(dec), 'C06.R2', 'symmetric|same-tables', esite, 'both use %s' % tables_used(enc), 'encrypt uses tables %s, decrypt %s' % (tables_used(enc), tables_used(dec)))
    ctx.check(padded_modes(enc) == padded_modes(dec) and len(padded_modes(enc)) == 1, 'C06.R2', 'symmetric|padded-modes', esite, 'padded modes %s on both sides' % padded_modes(enc),
              'the modes that take padding differ: encrypt %s, decrypt %s' % (padded_modes(enc), padded_modes(dec)))
    def cipher_context_vars(fn):
        """locals bound to <cipher>.encryptor() / .decryptor()"""
        return set(a.targets[0].id for a in walk_local(fn) if isinstance(a, ast.Assign) and isinstance(a.targets[0], ast.Name) and isinstance(a.value, ast.Call)
                   and isinstance(a.value.func, ast.Attribute) and a.value.func.attr in ('encryptor', 'decryptor'))

    def mode_vars(fn):
        """locals passed as the mode argument of ciphers.Cipher(algorithm, mode, ...)"""
        out = set()
        for c in walk_local(fn):
            if isinstance(c, ast.Call) and (call_name(c) or '').split('.')[-1] == 'Cipher':
                mv = c.args[1] if len(c.args) > 1 else next((k.value for k in c.keywords if k.arg == 'mode'), None)
                if isinstance(mv, ast.Name):
                    out.add(mv.id)
        return out
    for fn, undo in ((enc, False), (dec, True)):
        g = CFG(fn)
        cvars = cipher_context_vars(fn)
        mvars = mode_vars(fn)
        pads = [(n, c) for n, c in call_nodes(g, 'self._handle_symmetric_padding')]
        core = [(n, c) for n in g.nodes for c in calls_at(n) if isinstance(c.func, ast.Attribute) and c.func.attr == 'update' and isinstance(c.func.value, ast.Name) and c.func.value.id in cvars]
        site = '%s:%s CryptographyEngine.%s' % (CRYPTO, fn.lineno, fn.name)
        ok = len(pads) == 1 and len(core) == 1
        if ok:
            pn, pc = pads[0]
            cn, cc = core[0]
            u = [k.value for k in pc.keywords if k.arg == 'undo_padding'] or pc.args[3:4]
            uv = bool(u) and isinstance(u[0], ast.Constant) and u[0].value is True
            ok = (uv == undo)
            # order: pad -> encrypt ; decrypt -> unpad ; and the data flows through the same variable
            if undo:
                ok = ok and g.exists_path(cn, pn) and not g.exists_path(pn, cn)
            else:
                ok = ok and g.exists_path(pn, cn) and not g.exists_path(cn, pn)
            # the padded/unpadded variable is the one encrypted/returned
            ok = ok and isinstance(pc._parent, ast.Assign) and isinstance(pc.args[1], ast.Name) and pc._parent.targets[0].id == pc.args[1].id
            ok = ok and U(pc.args[0]).startswith('self._symmetric_key_algorithms.get(') and U(pc.args[2]) == 'padding_method'
        ctx.check(ok, 'C06.R2', 'CryptographyEngine.%s|padding-order' % fn.name, site, 'padding %s the cipher operation, undo_padding=%s' % ('after' if undo else 'before', undo),
                  'padding is not applied %s the cipher operation with undo_padding=%s' % ('after' if undo else 'before', undo))
        # IV handed to the mode constructor; GCM tag / AAD
        modecalls = [c for c in walk_local(fn) if isinstance(c, ast.Call) and isinstance(c.func, ast.Name) and c.func.id in mvars]
        with_iv = [c for c in modecalls if c.args and isinstance(c.args[0], ast.Name) and c.args[0].id == 'iv_nonce']
        gcm = [c for c in with_iv if len(c.args) + len(c.keywords) > 1]
        aad = [c for c in walk_local(fn) if isinstance(c, ast.Call) and isinstance(c.func, ast.Attribute) and c.func.attr == 'authenticate_additional_data' and U(c.args[0]) == 'auth_additional_data']
        okiv = len(with_iv) == 2 and len(gcm) == 1 and len(aad) == 1
        if okiv and undo:
            kw = {k.arg: U(k.value) for k in gcm[0].keywords}
            okiv = kw.get('tag') == 'auth_tag' or (len(gcm[0].args) > 1 and U(gcm[0].args[1]) == 'auth_tag')
        elif okiv:
            okiv = len(gcm[0].args) > 1 and isinstance(gcm[0].args[1], ast.Constant) and gcm[0].args[1].value is None
            tags = [n for n in walk_local(fn) if isinstance(n, ast.Attribute) and n.attr == 'tag' and isinstance(n.value, ast.Name) and n.value.id in cvars]
            okiv = okiv and len(tags) == 1
        ctx.check(okiv, 'C06.R2', 'CryptographyEngine.%s|iv-aad-tag' % fn.name, site, 'IV passed to the mode, AAD authenticated, GCM tag %s' % ('verified' if undo else 'returned'),
                  'IV / additional data / tag handling deviates from the sibling shape')
    # ---------------- R7 every result of a symmetric cipher operation went through update + finalize (tag computed / verified there)
    ctx.rule('C06.R7', 'in _encrypt_symmetric and _decrypt_symmetric every path to a normal return passes <context>.finalize() of the cipher context (GCM tags are produced and verified only there), and, where additional authenticated data is given, authenticate_additional_data before it')
    for fn in (enc, dec):
        fg = CFG(fn)
        site = '%s:%s CryptographyEngine.%s' % (CRYPTO, fn.lineno, fn.name)
        fin = [n for n in fg.nodes for c in calls_at(n) if isinstance(c.func, ast.Attribute) and c.func.attr == 'finalize' and isinstance(c.func.value, ast.Name) and c.func.value.id in cipher_context_vars(fn)]
        ctx.check(bool(fin) and fg.all_paths_pass(fg.entry, fg.exit, fin), 'C06.R7', 'CryptographyEngine.%s|finalize-on-every-return' % fn.name, site,
                  'every normal return is preceded by finalize() (%d site(s))' % len(fin),
                  'a path returns a result without passing the cipher context\'s finalize(): for an authenticated mode the tag (and the additional data) is then never verified / produced')
        aadn = [n for n in fg.nodes for c in calls_at(n) if isinstance(c.func, ast.Attribute) and c.func.attr == 'authenticate_additional_data']
        tests = [n for n in fg.nodes if n.kind == 'test' and is_none_test_of(n.stmt, 'auth_additional_data')]
        okaad = bool(aadn) and len(fin) == 1 and all(fg.all_paths_pass(a, fg.exit, fin) for a in aadn)
        if okaad:
            # execution condition of the AAD call = execution condition of finalize() AND "additional data given"
            de_f = set((tn.id, lab) for tn, lab in dominating_edges(fg, fin[0]))
            for a in aadn:
                extra = [(tn, lab) for tn, lab in dominating_edges(fg, a) if (tn.id, lab) not in de_f]
                okaad = okaad and len(extra) == 1 and is_none_test_of(extra[0][0].stmt, 'auth_additional_data') == ('notnone' if extra[0][1] == 'T' else 'none')
        ctx.check(okaad, 'C06.R7', 'CryptographyEngine.%s|aad-before-finalize' % fn.name, site, 'additional data, when given, is authenticated before finalize()',
                  'additional authenticated data is not fed to the cipher context on every path on which it is given before finalize()')
    hp = get_method(cls, '_handle_symmetric_padding')
    hg = CFG(hp)
    un = [(n, c) for n in hg.nodes for c in calls_at(n) if isinstance(c.func, ast.Attribute) and c.func.attr in ('unpadder', 'padder')]
    okh = len(un) == 2
    if okh:
        for n, c in un:
            flag = None
            for tt, lab in dominating_edges(hg, n):
                if isinstance(tt.stmt, ast.Name) and tt.stmt.id == 'undo_padding':
                    flag = (lab == 'T')
            if (c.func.attr == 'unpadder') != flag:
                okh = False
            if not (isinstance(c.func.value, ast.Call) and c.func.value.args and U(c.func.value.args[0]) == 'algorithm.block_size'):
                okh = False
    ctx.check(okh, 'C06.R2', 'CryptographyEngine._handle_symmetric_padding|padder-unpadder', '%s:%s' % (CRYPTO, hp.lineno), 'unpadder under undo_padding, padder otherwise, both sized by the algorithm block size',
              'padder/unpadder selection or block size deviates')
    def padding_arms(fn):
        """PaddingMethod member -> normalised description of the padding object built in that arm."""
        g = CFG(fn)
        out = {}
        padfn_vars = set(a.targets[0].id for a in walk_local(fn) if isinstance(a, ast.Assign) and isinstance(a.targets[0], ast.Name) and '_asymmetric_padding_methods' in U(a.value))
        padtab = {enum_member(k)[1]: (dotted(v) or '').split('.')[-1] for k, v in zip(tabs['_asymmetric_padding_methods'].value.keys, tabs['_asymmetric_padding_methods'].value.values)
                  if enum_member(k)}
        for n in g.nodes:
            members = []
            for tt, lab in dominating_edges(g, n):
                p = cmp_parts(tt.stmt)
                if p and p[1] == 'Eq' and lab == 'T' and enum_member(p[2], 'PaddingMethod'):
                    members.append(enum_member(p[2])[1])
            if len(members) != 1:
                continue
            for c in calls_at(n):
                cn = call_name(c) or ''
                if cn.startswith('asymmetric_padding.') and cn.split('.')[1] in ('PSS', 'PKCS1v15', 'OAEP'):
                    kw = []
                    for k in c.keywords:
                        v = k.value
                        if isinstance(v, ast.Call) and (call_name(v) or '').startswith('asymmetric_padding.'):
                            inner = ['%s(%s)' % (call_name(v).split('.')[1], ','.join('hash()' if isinstance(a, ast.Call) and not a.args else '?' for a in v.args)
                                                 + ','.join('%s=hash()' % kk.arg if isinstance(kk.value, ast.Call) else '%s=?' % kk.arg for kk in v.keywords))]
                            kw.append('%s=%s' % (k.arg, inner[0]))
                        elif isinstance(v, ast.Call) and not v.args:
                            kw.append('%s=hash()' % k.arg)
                        else:
                            kw.append('%s=%s' % (k.arg, U(v) if not isinstance(v, ast.Name) else '?'))
                    out.setdefault(members[0], set()).add('%s(%s)' % (cn.split('.')[1], ','.join(sorted(kw))))
                elif isinstance(c.func, ast.Name) and c.func.id in padfn_vars and not c.args and not c.keywords:
                    out.setdefault(members[0], set()).add('%s()' % padtab.get(members[0]))
        return {k: sorted(v) for k, v in out.items()}
    for a, b in (('_encrypt_asymmetric', '_decrypt_asymmetric'), ('sign', 'verify_signature')):
        fa, fb = pair(a, b)
        pa, pb = padding_arms(fa), padding_arms(fb)
        site = '%s:%s CryptographyEngine.%s/%s' % (CRYPTO, fa.lineno, a, b)
        ctx.check(pa == pb and bool(pa), 'C06.R2', '%s-%s|padding-constructions' % (a, b), site, 'same padding object per padding method on both sides: %s' % pa,
                  'the two sides build different paddings for the same padding method: %s vs %s' % (pa, pb))
        if a.startswith('_encrypt'):
            ctx.check(tables_used(fa) == tables_used(fb), 'C06.R2', '%s-%s|same-tables' % (a, b), site, 'both use %s' % tables_used(fa), 'table use differs: %s vs %s' % (tables_used(fa), tables_used(fb)))

    # ---------------- R3 enum kinds at plumbing sites
    ix = Index(src)
    m = EngineModel(src)

    def param_enum_classes(mname, pname, depth=0, seen=None):
        """enum classes with which parameter pname of CryptographyEngine.mname is looked up / compared (following forwarding calls)."""
        seen = seen if seen is not None else set()
        if (mname, pname) in seen or depth > 3 or mname not in ms:
            return set()
        seen.add((mname, pname))
        fn = ms[mname]
        out = set()
        for n in walk_local(fn):
            if isinstance(n, ast.Call) and isinstance(n.func, ast.Attribute) and n.func.attr in ('get', '__getitem__') and is_self_attr(n.func.value) and n.func.value.attr in tabs \
                    and n.args and isinstance(n.args[0], ast.Name) and n.args[0].id == pname:
                out |= table_keyclass.get(n.func.value.attr, set())
            if isinstance(n, ast.Subscript) and is_self_attr(n.value) and n.value.attr in tabs and isinstance(n.slice, ast.Name) and n.slice.id == pname:
                out |= table_keyclass.get(n.value.attr, set())
            if isinstance(n, ast.Compare) and len(n.ops) == 1:
                l, r = n.left, n.comparators[0]
                for x, y in ((l, r), (r, l)):
                    if isinstance(x, ast.Name) and x.id == pname:
                        em = enum_member(y)
                        if em:
                            out.add(em[0])
                        if isinstance(y, (ast.List, ast.Tuple)):
                            for e_ in y.elts:
                                if enum_member(e_):
                                    out.add(enum_member(e_)[0])
                        if isinstance(y, ast.Call) and isinstance(y.func, ast.Attribute) and y.func.attr == 'keys' and is_self_attr(y.func.value) and y.func.value.attr in tabs:
                            out |= table_keyclass.get(y.func.value.attr, set())
                        if is_self_attr(y) and y.attr in ('_no_mode_needed', '_no_padding_needed'):
                            pass
            if isinstance(n, ast.Call) and is_self_attr(n.func) and n.func.attr in ms:
                b = bind_args(ms[n.func.attr], n)
                for p2, a in b.items():
                    if isinstance(a, ast.Name) and a.id == pname:
                        out |= param_enum_classes(n.func.attr, p2, depth + 1, seen)
        return out

    def field_enum_class(field):
        """enum class a property setter named `field` constrains its value to (searched in the classes that carry crypto parameters)."""
        found = set()
        for rel, cn in ((ATTRS, 'CryptographicParameters'), (ATTRS, 'DerivationParameters'), ('kmip/core/objects.py', 'KeyWrappingSpecification'),
                        ('kmip/core/messages/payloads/derive_key.py', 'DeriveKeyRequestPayload')):
            c = get_class(src.tree(rel), cn)
            for f in c.body:
                if isinstance(f, ast.FunctionDef) and f.name == field and any((dotted(d) or '').endswith('.setter') for d in f.decorator_list):
                    for n in ast.walk(f):
                        if isinstance(n, ast.Call) and call_name(n) == 'isinstance' and len(n.args) == 2:
                            d = dotted(n.args[1]) or ''
                            if d.startswith('enums.'):
                                found.add(d.split('.')[1])
                        if isinstance(n, ast.Call) and (call_name(n) or '').endswith('Enumeration') and n.args:
                            d = dotted(n.args[0]) or ''
                            if d.startswith('enums.'):
                                found.add(d.split('.')[1])
        return found
    n_bind = 0
    for h in m.handlers:
        fn = m.method(h)
        g = None
        for c in [c for c in walk_local(fn) if isinstance(c, ast.Call) and (call_name(c) or '').startswith('self._cryptography_engine.')]:
            meth = c.func.attr
            if meth not in ms:
                continue
            b = bind_args(ms[meth], c)
            for p, a in b.items():
                want = param_enum_classes(meth, p)
                if not want:
                    continue
                expr = a
                if isinstance(a, ast.Name):
                    if g is None:
                        g = CFG(fn)
                        rd = ReachingDefs(g)
                    vals = [v for v in rd.values(node_of_expr(g, c), a.id) if isinstance(v, ast.AST) and not (isinstance(v, ast.Constant) and v.value is None)]
                    attrs = [v for v in vals if isinstance(v, ast.Attribute)]
                    expr = attrs[-1] if attrs else None
                if not isinstance(expr, ast.Attribute):
                    continue
                have = field_enum_class(expr.attr)
                if not have:
                    continue
                n_bind += 1
                site = '%s:%s KmipEngine.%s' % (ENGINE, c.lineno, h)
                ctx.check(have & want, 'C06.R3', 'KmipEngine.%s|%s.%s<-%s' % (h, meth, p, expr.attr), site, '%s (%s) -> %s.%s looked up as %s' % (U(expr), sorted(have), meth, p, sorted(want)),
                          'parameter %s of %s is looked up as %s but receives %s, a field of enumeration class %s' % (p, meth, sorted(want), U(expr), sorted(have)))
    ctx.count('enum_typed_bindings', n_bind, 12)

    # ---------------- R5 primitive per method arm (name oracle over if-chains)
    ctx.rule('C06.R5', 'derive_key / mac / wrap_key: each method arm constructs the primitive the KMIP method names (HMAC->HKDF, HASH->hashes.Hash, PBKDF2->PBKDF2HMAC, '
                       'NIST800_108_C->KBKDFHMAC in counter mode, ENCRYPT->self.encrypt; HMAC_* -> hmac.HMAC with the hash table, block ciphers -> cmac.CMAC; NIST_KEY_WRAP->aes_key_wrap), sized by the requested length')
    T_DERIVE = {'HMAC': 'hkdf.HKDF', 'HASH': 'hashes.Hash', 'PBKDF2': 'pbkdf2.PBKDF2HMAC', 'NIST800_108_C': 'kbkdf.KBKDFHMAC', 'ENCRYPT': 'self.encrypt'}
    dk = get_method(cls, 'derive_key')
    dg = CFG(dk)
    arms = {}
    for n in dg.nodes:
        mem = []
        for tt, lab in dominating_edges(dg, n):
            p = cmp_parts(tt.stmt)
            if p and p[1] == 'Eq' and lab == 'T' and enum_member(p[2], 'DerivationMethod') and isinstance(p[0], ast.Name) and p[0].id == 'derivation_method':
                mem.append(enum_member(p[2])[1])
        if len(mem) == 1:
            for c in calls_at(n):
                cn = call_name(c) or ''
                if cn in T_DERIVE.values() or cn.split('.')[0] in ('hkdf', 'pbkdf2', 'kbkdf', 'hashes', 'x963kdf', 'concatkdf', 'scrypt') and cn.split('.')[-1][:1].isupper() and cn.count('.') == 1:
                    arms.setdefault(mem[0], []).append((cn, c))
    ctx.count('derivation_method_arms', len(arms), 5)
    for member, want in sorted(T_DERIVE.items()):
        got = arms.get(member, [])
        site = '%s:%s CryptographyEngine.derive_key' % (CRYPTO, got[0][1].lineno if got else dk.lineno)
        names = sorted(set(cn for cn, c in got if not cn.startswith('hashes.') or want.startswith('hashes.')))
        ok = names == [want]
        if ok and want not in ('self.encrypt', 'hashes.Hash'):
            c = [c for cn, c in got if cn == want][0]
            ln = [k.value for k in c.keywords if k.arg == 'length']
            ok = len(ln) == 1 and U(ln[0]) == 'derivation_length'
            if want == 'kbkdf.KBKDFHMAC':
                md = [U(k.value) for k in c.keywords if k.arg == 'mode']
                ok = ok and md == ['kbkdf.Mode.CounterMode']
        ctx.check(ok, 'C06.R5', 'CryptographyEngine.derive_key|%s' % member, site, '%s -> %s(length=derivation_length)' % (member, want),
                  'derivation method %s constructs %s (expected %s sized by derivation_length%s)' % (member, names, want, ', counter mode' if 'KBKDF' in want else ''))
    extra = sorted(set(arms) - set(T_DERIVE))
    ctx.check(not extra, 'C06.R5', 'CryptographyEngine.derive_key|unreviewed-arms', '%s:%s' % (CRYPTO, dk.lineno), 'no derivation arm outside the reviewed table', 'derivation arms without a reviewed primitive: %s' % extra)
    mc = get_method(cls, 'mac')
    mg = CFG(mc)
    okm = True
    seen_prims = set()
    for n in mg.nodes:
        for c in calls_at(n):
            cn = call_name(c) or ''
            if cn in ('hmac.HMAC', 'cmac.CMAC'):
                seen_prims.add(cn)
                tabname = None
                for tt, lab in dominating_edges(mg, n):
                    p = cmp_parts(tt.stmt)
                    if p and p[1] == 'In' and lab == 'T' and isinstance(p[2], ast.Call) and isinstance(p[2].func, ast.Attribute) and p[2].func.attr == 'keys' and is_self_attr(p[2].func.value):
                        tabname = p[2].func.value.attr
                    elif p and p[1] == 'In' and lab == 'T' and is_self_attr(p[2]):
                        tabname = p[2].attr                 # `key in self._table` is `key in self._table.keys()`
                want_tab = '_hash_algorithms' if cn == 'hmac.HMAC' else '_symmetric_key_algorithms'
                if tabname != want_tab or not (c.args and (U(c.args[0]) == 'key' or 'key' in U(c.args[0]))):
                    okm = False
    ctx.check(okm and seen_prims == {'hmac.HMAC', 'cmac.CMAC'}, 'C06.R5', 'CryptographyEngine.mac|hmac-cmac-arms', '%s:%s CryptographyEngine.mac' % (CRYPTO, mc.lineno),
              'HMAC_* algorithms use hmac.HMAC(key, table hash), block ciphers use cmac.CMAC(table cipher(key))', 'the MAC arms do not pair HMAC with the hash table and CMAC with the cipher table')
    wk = get_method(cls, 'wrap_key')
    wg = CFG(wk)
    okw = False
    from ..astutil import table_callees
    for n in wg.nodes:
        for c in calls_at(n):
            # the callee, direct or looked up by the wrapping method in an instance table (f = self._table.get(method); f(...))
            cands = [(call_name(c) or '', [])] if not isinstance(c.func, ast.Name) else [(dotted(v_) or '', [enum_member(k_)[1]] if enum_member(k_) else ['?']) for k_, v_ in table_callees(cls, wk, c) or ()]
            for cn_, extra in cands:
                if cn_ == 'keywrap.aes_key_wrap':
                    a = bind_args_simple(c)
                    under = [enum_member(cmp_parts(tt.stmt)[2])[1] for tt, lab in dominating_edges(wg, n) if cmp_parts(tt.stmt) and cmp_parts(tt.stmt)[1] == 'Eq' and lab == 'T' and enum_member(cmp_parts(tt.stmt)[2])]
                    okw = sorted(under + extra) == ['ENCRYPT', 'NIST_KEY_WRAP'] and a[:2] == ['encryption_key', 'key_material']
    ctx.check(okw, 'C06.R5', 'CryptographyEngine.wrap_key|nist-key-wrap', '%s:%s CryptographyEngine.wrap_key' % (CRYPTO, wk.lineno),
              'ENCRYPT + NIST_KEY_WRAP -> keywrap.aes_key_wrap(encryption_key, key_material)', 'wrap_key does not call aes_key_wrap(wrapping key, key material) under ENCRYPT/NIST_KEY_WRAP')


    # ---------------- R6 derived material has exactly the requested length
    ctx.rule('C06.R6', 'in DeriveKey every object built from the derivation output stores exactly derivation_length bytes: shorter output is rejected and longer output is truncated on every path to every constructor')
    dkf = m.method('_process_derive_key')
    dg2 = CFG(dkf)
    drd = ReachingDefs(dg2)
    dcalls = [(n, c) for n, c in call_nodes(dg2, 'self._cryptography_engine.derive_key')]
    ctx.need(len(dcalls) == 1 and isinstance(dcalls[0][1]._parent, ast.Assign), 'unrecognised construct: derive_key call in _process_derive_key')
    dn, dc = dcalls[0]
    X = dc._parent.targets[0].id
    lv = [k.value for k in dc.keywords if k.arg == 'derivation_length']
    ctx.need(len(lv) == 1 and isinstance(lv[0], ast.Name), 'unrecognised construct: derivation_length argument')
    LV = lv[0].id

    def is_len_cmp(test, bigger_is_len):
        p = cmp_parts(test)
        if not p:
            return False
        a, op, b = U(p[0]), p[1], U(p[2])
        ln = 'len(%s)' % X
        if bigger_is_len:
            return (a == ln and op == 'Gt' and b == LV) or (a == LV and op == 'Lt' and b == ln)
        return (a == LV and op == 'Gt' and b == ln) or (a == ln and op == 'Lt' and b == LV)
    cons = []
    for n in dg2.nodes:
        for c in calls_at(n):
            if (call_name(c) or '').startswith('objects.') and n.id in dg2.reachable(dn):
                for a in list(c.args) + [k.value for k in c.keywords]:
                    names = [x.id for x in ast.walk(a) if isinstance(x, ast.Name)]
                    if X in names:
                        cons.append((n, c, a))
    ctx.count('derived_object_constructions', len(cons), 2)
    for n, c, a in cons:
        site = m.site(c, dkf)
        lower = any(is_len_cmp(tt.stmt, False) and lab == 'F' for tt, lab in dominating_edges(dg2, n))
        upper = False
        if isinstance(a, ast.Subscript) and isinstance(a.slice, ast.Slice) and U(a.value) == X and a.slice.lower is None and a.slice.upper is not None and U(a.slice.upper) == LV:
            upper = True
        elif isinstance(a, ast.Name) and a.id == X:
            sl = [x for x in dg2.nodes if x.kind == 'stmt' and isinstance(x.stmt, ast.Assign) and isinstance(x.stmt.targets[0], ast.Name) and x.stmt.targets[0].id == X
                  and isinstance(x.stmt.value, ast.Subscript) and isinstance(x.stmt.value.slice, ast.Slice) and U(x.stmt.value.value) == X and x.stmt.value.slice.upper is not None and U(x.stmt.value.slice.upper) == LV
                  and x.stmt.value.slice.lower is None and x.stmt.value.slice.step is None]
            # unconditional truncation: every path from the derivation to the constructor passes X = X[:L]  (a no-op when len(X) <= L)
            if sl and all(dg2.all_paths_pass(mm, n, sl) for mm, l in dn.succ if l != 'exc'):
                upper = True
            for tt in [x for x in dg2.nodes if x.kind == 'test' and is_len_cmp(x.stmt, True)]:
                if dg2.dominates(tt, n) and sl:
                    tsucc = [mm for mm, l in tt.succ if l == 'T']
                    if all(dg2.all_paths_pass(s_, n, sl) for s_ in tsucc):
                        upper = True
        ctx.check(lower and upper, 'C06.R6', 'KmipEngine._process_derive_key|%s value length' % call_name(c), site,
                  'the stored value is rejected when shorter and truncated when longer than %s' % LV,
                  'an object built from the derivation output can hold %s than the requested %s bytes' % ('fewer' if not lower else 'more', LV))

    # ---------------- R4 randomness
    csk = get_method(cls, 'create_symmetric_key')
    g = CFG(csk)
    rd = ReachingDefs(g)
    lp = params(csk)[1]
    rets = [p_ for p_, l in g.exit.pred if isinstance(p_.stmt, ast.Return)]
    ok = False
    for r in rets:
        v = r.stmt.value
        if isinstance(v, ast.Dict):
            d = {k.value: val for k, val in zip(v.keys, v.values) if isinstance(k, ast.Constant)}
            kv = d.get('value')
            if isinstance(kv, ast.Name):
                vals = rd.values(r, kv.id)
                ok = len(vals) == 1 and isinstance(vals[0], ast.Call) and call_name(vals[0]) == 'os.urandom' and ' '.join(U(vals[0].args[0]).split()) == '%s // 8' % lp
    ctx.check(ok and len(rets) == 1, 'C06.R4', 'CryptographyEngine.create_symmetric_key|fresh-random-bytes', '%s:%s' % (CRYPTO, csk.lineno), "value = os.urandom(length // 8), generated in the call",
              'the returned key bytes are not os.urandom(<requested length> // 8) generated within the call')
    rsa = get_method(cls, '_create_rsa_key_pair')
    gens = [c for c in walk_local(rsa) if isinstance(c, ast.Call) and call_name(c) == 'rsa.generate_private_key']
    okr = len(gens) == 1 and any(k.arg == 'key_size' and isinstance(k.value, ast.Name) and k.value.id == params(rsa)[0] for k in gens[0].keywords)
    ctx.check(okr, 'C06.R4', 'CryptographyEngine._create_rsa_key_pair|fresh-key', '%s:%s' % (CRYPTO, rsa.lineno), 'rsa.generate_private_key(key_size=length) per call', 'the RSA key is not generated per call with the requested size')
    ivs = [n for n in walk_local(enc) if isinstance(n, ast.Assign) and isinstance(n.targets[0], ast.Name) and n.targets[0].id == 'iv_nonce']
    oki = len(ivs) == 1 and isinstance(ivs[0].value, ast.Call) and call_name(ivs[0].value) == 'os.urandom' and 'block_size' in U(ivs[0].value.args[0])
    if oki:
        eg = CFG(enc)
        node = node_of_expr(eg, ivs[0])
        from ..guards import is_none_test
        oki = any(is_none_test(tt.stmt) and U(is_none_test(tt.stmt)[1]) == 'iv_nonce' and ((is_none_test(tt.stmt)[0] == 'is') == (lab == 'T')) for tt, lab in dominating_edges(eg, node))
    ctx.check(oki, 'C06.R4', 'CryptographyEngine._encrypt_symmetric|fresh-iv', '%s:%s' % (CRYPTO, enc.lineno), 'a missing IV is generated with os.urandom(block size) in the call', 'a missing IV is not generated freshly from os.urandom')
    stores = sorted(set((name, n.attr) for name, fn in ms.items() if name != '__init__' for n in walk_local(fn) if is_self_attr(n) and isinstance(n.ctx, ast.Store)))
    modstate = [U(s.targets[0]) for s in t.body if isinstance(s, ast.Assign)]
    ctx.check(not stores and not modstate, 'C06.R4', 'CryptographyEngine|stateless', '%s CryptographyEngine' % CRYPTO, 'no instance or module state is written outside __init__',
              'the crypto engine keeps state across calls (cached key material?): %s %s' % (stores, modstate))
    # ---------------- C06.R8 (lifted from C05)
    check_padding_always_applied(ctx, cls)
    if fold_derive_key_inputs(ctx, m) is None:
        ctx.need(False, 'unrecognised construct: the selection of the DeriveKey inputs cannot be folded (%s)' % '; '.join(x for x in ctx.info if 'C06.R10' in x)[-200:])
    ctx.rule('C06.R8', 'no handler other than the attribute and lifecycle operations writes a field of a loaded object - in particular the key material (.value) handed to the cryptographic engine is what is stored, not something a previous Get-with-wrapping left on the instance (lifted from C05.R7)')
    from ..report import Ctx as _LCtx
    from . import c05 as _lsrc
    _sub = _LCtx('C05', 'quick', ctx.src, 0)
    from ..report import run_lifted as _run_lifted
    _run_lifted(ctx, _lsrc, _sub)
    _lifted = [f for f in _sub.findings if f.rule == 'C05.R7']
    for f in _lifted:
        ctx.fail('C06.R8', f.key, f.site, f.message)
    if not _lifted:
        ctx.ok('C06.R8', 'kmip/services/server/engine.py', 'no read-only handler modifies a loaded object')
    # ---------------- C06.R9 (lifted from C01)
    ctx.rule('C06.R9', 'what a cryptographic operation computed reaches the client: the response (and request) payload classes of Encrypt, Decrypt, Sign, SignatureVerify, MAC and DeriveKey write every element their reader accepts, under the same conditions (lifted from C01.R1/R2)')
    from ..report import Ctx as _LCtx_C06_R9
    from . import c01 as _lsrc_C06_R9
    _sub_C06_R9 = _LCtx_C06_R9('C01', 'quick', ctx.src, 0)
    from ..report import run_lifted as _run_lifted
    _run_lifted(ctx, _lsrc_C06_R9, _sub_C06_R9)
    _lifted_C06_R9 = [f for f in _sub_C06_R9.findings if f.rule in ('C01.R1', 'C01.R2') and any(x in f.key for x in ('Encrypt', 'Decrypt', 'Sign', 'MAC', 'DeriveKey'))]
    for f in _lifted_C06_R9:
        ctx.fail('C06.R9', f.key, f.site, f.message)
    if not _lifted_C06_R9:
        ctx.ok('C06.R9', 'lifted from C01', 'reader and writer of the cryptographic payloads agree')
    ctx.not_decided += ['equality of MAC/derive/wrap/encrypt outputs with reference implementations (numeric)', 'Decrypt inverting Encrypt for every input; tag verification; bit/byte length of derived keys',
                        'randomness quality / freshness across calls beyond provenance from os.urandom']
    ctx.assumptions += ['class names of the cryptography package denote the primitives of that name', 'T_ALIAS: RC4 = ARC4, PKCS5 = PKCS7 padding']
