"""Generic semantics-preserving source transformations used by the thorough-tier self-test (applied in memory)."""
import ast


def _is_prop(fn):
    for d in fn.decorator_list:
        if (isinstance(d, ast.Name) and d.id in ('property', 'staticmethod', 'classmethod')) or (isinstance(d, ast.Attribute) and d.attr in ('setter', 'getter', 'deleter')):
            return True
    return False


def reverse_methods(text):
    """Reverse the order of the plain methods of every class (property getters/setters keep their slots: their order matters)."""
    t = ast.parse(text)
    for cls in [n for n in ast.walk(t) if isinstance(n, ast.ClassDef)]:
        slots = [i for i, s in enumerate(cls.body) if isinstance(s, ast.FunctionDef) and not _is_prop(s)]
        fns = [cls.body[i] for i in slots][::-1]
        for i, f in zip(slots, fns):
            cls.body[i] = f
    return ast.unparse(t)


class _Renamer(ast.NodeTransformer):
    def __init__(self, names, suffix):
        self.names = names
        self.suffix = suffix

    def visit_Name(self, node):
        if node.id in self.names:
            return ast.copy_location(ast.Name(id=node.id + self.suffix, ctx=node.ctx), node)
        return node

    def visit_ExceptHandler(self, node):
        self.generic_visit(node)
        if node.name in self.names:
            node.name = node.name + self.suffix
        return node


def _local(fn):
    """Nodes of fn's own scope (nested function/class/lambda bodies excluded; comprehensions included)."""
    st = list(fn.body)
    while st:
        n = st.pop()
        yield n
        for c in ast.iter_child_nodes(n):
            if isinstance(c, (ast.FunctionDef, ast.AsyncFunctionDef, ast.ClassDef, ast.Lambda)):
                continue
            st.append(c)


def rename_locals(text, suffix='_rn'):
    """Alpha-rename the local variables of every function (not parameters, not names that a nested scope touches, not global/nonlocal)."""
    t = ast.parse(text)
    for fn in [n for n in ast.walk(t) if isinstance(n, ast.FunctionDef)]:
        a = fn.args
        params = set(x.arg for x in a.posonlyargs + a.args + a.kwonlyargs + ([a.vararg] if a.vararg else []) + ([a.kwarg] if a.kwarg else []))
        assigned, blocked = set(), set(params)
        for n in _local(fn):
            if isinstance(n, ast.Name) and isinstance(n.ctx, (ast.Store, ast.Del)):
                assigned.add(n.id)
            if isinstance(n, ast.ExceptHandler) and n.name:
                assigned.add(n.name)
            if isinstance(n, (ast.Global, ast.Nonlocal)):
                blocked |= set(n.names)
            if isinstance(n, (ast.Import, ast.ImportFrom)):
                blocked |= set((x.asname or x.name).split('.')[0] for x in n.names)
        for n in ast.walk(fn):
            if n is not fn and isinstance(n, (ast.FunctionDef, ast.AsyncFunctionDef, ast.ClassDef, ast.Lambda)):
                for x in ast.walk(n):
                    if isinstance(x, ast.Name):
                        blocked.add(x.id)
                    if isinstance(x, ast.arg):
                        blocked.add(x.arg)
                if hasattr(n, 'name'):
                    blocked.add(n.name)
        names = assigned - blocked
        if not names:
            continue
        r = _Renamer(names, suffix)
        fn.body = [r.visit(s) for s in fn.body]
    return ast.unparse(ast.fix_missing_locations(t))


TRANSFORMS = {'reverse-methods': reverse_methods, 'rename-locals': rename_locals}


class _NegateIf(ast.NodeTransformer):
    def visit_If(self, node):
        self.generic_visit(node)
        # plain if/else (not an elif chain on the else side, to keep the text readable; the semantics would be the same anyway)
        if node.orelse and not (len(node.orelse) == 1 and isinstance(node.orelse[0], ast.If)):
            t = node.test
            nt = t.operand if isinstance(t, ast.UnaryOp) and isinstance(t.op, ast.Not) else ast.UnaryOp(op=ast.Not(), operand=t)
            return ast.copy_location(ast.If(test=nt, body=node.orelse, orelse=node.body), node)
        return node


def negate_if(text):
    """if A: X else: Y  ->  if not A: Y else: X"""
    return ast.unparse(ast.fix_missing_locations(_NegateIf().visit(ast.parse(text))))


class _SwapCompare(ast.NodeTransformer):
    SW = {ast.Eq: ast.Eq, ast.NotEq: ast.NotEq, ast.Lt: ast.Gt, ast.Gt: ast.Lt, ast.LtE: ast.GtE, ast.GtE: ast.LtE, ast.Is: ast.Is, ast.IsNot: ast.IsNot}

    def visit_Compare(self, node):
        self.generic_visit(node)
        if len(node.ops) == 1 and type(node.ops[0]) in self.SW and isinstance(node.comparators[0], (ast.Constant, ast.Attribute)) and not isinstance(node.left, ast.Constant):
            c = node.comparators[0]
            # only with a constant / enumeration member / None on the right: evaluation order of side-effect-free operands is irrelevant
            if isinstance(c, ast.Constant) or (isinstance(c, ast.Attribute) and ast.unparse(c).startswith('enums.')):
                return ast.copy_location(ast.Compare(left=c, ops=[self.SW[type(node.ops[0])]()], comparators=[node.left]), node)
        return node


def swap_compare(text):
    """x == CONST -> CONST == x (also !=, <, <=, >, >=, is, is not) where the right operand is a literal or an enumeration member"""
    return ast.unparse(ast.fix_missing_locations(_SwapCompare().visit(ast.parse(text))))


TRANSFORMS.update({'negate-if': negate_if, 'swap-compare': swap_compare})


def _terminates(stmts):
    return bool(stmts) and isinstance(stmts[-1], (ast.Return, ast.Raise, ast.Continue, ast.Break))


class _ElseAfterReturn(ast.NodeTransformer):
    """if c: ...; return/raise   <rest>   ->   if c: ...; return/raise  else: <rest>    (in function bodies and nested blocks)"""

    def _block(self, stmts):
        out = []
        i = 0
        while i < len(stmts):
            s = stmts[i]
            if isinstance(s, ast.If) and not s.orelse and _terminates(s.body) and i + 1 < len(stmts) and not isinstance(s.body[-1], (ast.Continue, ast.Break)):
                rest = self._block(stmts[i + 1:])
                out.append(ast.copy_location(ast.If(test=s.test, body=s.body, orelse=rest), s))
                return out
            out.append(s)
            i += 1
        return out

    def visit_FunctionDef(self, node):
        self.generic_visit(node)
        node.body = self._block(node.body)
        return node


def else_after_return(text):
    return ast.unparse(ast.fix_missing_locations(_ElseAfterReturn().visit(ast.parse(text))))


class _ReturnViaTemp(ast.NodeTransformer):
    def __init__(self):
        self.k = 0

    def visit_FunctionDef(self, node):
        self.generic_visit(node)
        node.body = self._block(node.body)
        return node

    def _block(self, stmts):
        out = []
        for s in stmts:
            for fld in ('body', 'orelse', 'finalbody'):
                if hasattr(s, fld) and isinstance(getattr(s, fld), list) and not isinstance(s, (ast.FunctionDef, ast.ClassDef)):
                    setattr(s, fld, self._block(getattr(s, fld)))
            if isinstance(s, ast.Try):
                for h in s.handlers:
                    h.body = self._block(h.body)
            if isinstance(s, ast.Return) and isinstance(s.value, ast.Call):
                self.k += 1
                nm = 'result_tmp_%d' % self.k
                out.append(ast.copy_location(ast.Assign(targets=[ast.Name(id=nm, ctx=ast.Store())], value=s.value), s))
                out.append(ast.copy_location(ast.Return(value=ast.Name(id=nm, ctx=ast.Load())), s))
            else:
                out.append(s)
        return out


def return_via_temp(text):
    """return f(x)  ->  tmp = f(x); return tmp"""
    return ast.unparse(ast.fix_missing_locations(_ReturnViaTemp().visit(ast.parse(text))))


TRANSFORMS.update({'else-after-return': else_after_return, 'return-via-temp': return_via_temp})


class _NestAnd(ast.NodeTransformer):
    def visit_If(self, node):
        self.generic_visit(node)
        if not node.orelse and isinstance(node.test, ast.BoolOp) and isinstance(node.test.op, ast.And) and len(node.test.values) >= 2:
            first = node.test.values[0]
            rest = node.test.values[1:]
            inner_test = rest[0] if len(rest) == 1 else ast.BoolOp(op=ast.And(), values=rest)
            inner = ast.copy_location(ast.If(test=inner_test, body=node.body, orelse=[]), node)
            return ast.copy_location(ast.If(test=first, body=[inner], orelse=[]), node)
        return node


def nest_and(text):
    """if A and B: X   ->   if A: if B: X      (ifs without an else side)"""
    return ast.unparse(ast.fix_missing_locations(_NestAnd().visit(ast.parse(text))))


TRANSFORMS.update({'nest-and': nest_and})
