"""Path-sensitive constant propagation over a region of one function's CFG (no solver: a finite disjunctive abstract
interpretation).  Rules that used to match the *spelling* of a loop body or of a try/except ladder ask instead what holds
on every path: which constants the locals have when a call is made, how often a call happens between two points, whether a
path went through an except arm.  States that agree on the node and on every tracked value are merged, so the exploration
is finite; a cap guards against blow-up (exceeded -> AnalysisError, never a verdict).

Values
  ('c', v)            constant (None, True, False, numbers, strings)
  ('e', Cls, MEMBER)  enumeration member  enums.Cls.MEMBER
  ('t', (v, ...))     tuple / list display
  ('pre', name)       the value a local had on entry to the region (never assigned on this path)
  ('x', key)          opaque; sim.sym[key] describes it: ('expr', ast, [arg values]) / ('unpack', value, i) / ('iter', loop) ...
  ('ne',)             a container that is known to be non-empty (a list display that was appended to); ('truthy',) / ('falsy',): an
                      opaque local after the branch of a test on it was taken (the same test later on the path decides the same way)
"""
import ast

from .astutil import enum_member, call_name
from .source import AnalysisError


class Sim:
    def __init__(self, g, hook=None, cap=20000):
        self.g = g
        self.hook = hook          # hook(sim, node, env) may set keys starting with '#'
        self.edge_hook = None     # edge_hook(sim, node, label, succ, env) -> env or None (prune)
        self.cap = cap
        self.sym = {}

    # ---- values
    def opaque(self, key, desc):
        self.sym[key] = desc
        return ('x', key)

    def ev(self, e, env):
        if e is None:
            return ('c', None)
        if isinstance(e, ast.Constant):
            return ('c', e.value)
        em = enum_member(e)
        if em:
            return ('e', em[0], em[1])
        if isinstance(e, ast.Name):
            return env.get(e.id, ('pre', e.id))
        if isinstance(e, (ast.Tuple, ast.List)):
            return ('t', tuple(self.ev(x, env) for x in e.elts))
        if isinstance(e, ast.Call):
            args = [self.ev(a, env) for a in e.args]
            kws = {k.arg: self.ev(k.value, env) for k in e.keywords}
            key = (id(e), tuple(args), tuple(sorted(kws.items(), key=lambda kv: str(kv[0]))))
            return self.opaque(key, ('call', e, args, kws))
        if isinstance(e, ast.Attribute):
            b = self.ev(e.value, env)
            return self.opaque((id(e), b), ('attr', e, b))
        if isinstance(e, ast.IfExp):
            t = self.truth(e.test, env)
            if t is True:
                return self.ev(e.body, env)
            if t is False:
                return self.ev(e.orelse, env)
        if isinstance(e, ast.Subscript):
            b = self.ev(e.value, env)
            if b[0] == 't' and isinstance(e.slice, ast.Constant) and isinstance(e.slice.value, int) and -len(b[1]) <= e.slice.value < len(b[1]):
                return b[1][e.slice.value]
            return self.opaque((id(e), b), ('subscript', e, b))
        return self.opaque((id(e),), ('expr', e))

    def describe(self, v):
        if v[0] == 'x':
            return self.sym.get(v[1])
        return v

    def is_pre(self, v):
        """does the value (transitively) contain something carried over from before the region"""
        if v[0] == 'pre':
            return True
        if v[0] == 't':
            return any(self.is_pre(x) for x in v[1])
        if v[0] == 'x':
            d = self.sym.get(v[1])
            if d and d[0] == 'call':
                return any(self.is_pre(x) for x in d[2]) or any(self.is_pre(x) for x in d[3].values())
            if d and d[0] in ('attr', 'subscript'):
                return self.is_pre(d[2])
            if d and d[0] == 'unpack':
                return self.is_pre(d[1])
        return False

    @staticmethod
    def truthy(v):
        if v[0] == 'c':
            return bool(v[1])
        if v[0] == 'e':
            return True
        if v[0] == 't':
            return len(v[1]) > 0
        if v[0] in ('ne', 'truthy'):
            return True
        if v[0] in ('falsy', 'none'):
            return False
        return None

    def truth(self, t, env):
        if isinstance(t, ast.UnaryOp) and isinstance(t.op, ast.Not):
            r = self.truth(t.operand, env)
            return None if r is None else (not r)
        if isinstance(t, ast.Compare) and len(t.ops) == 1:
            a, b = self.ev(t.left, env), self.ev(t.comparators[0], env)
            op = t.ops[0]
            known = lambda v: v[0] in ('c', 'e')
            if isinstance(op, (ast.Is, ast.IsNot, ast.Eq, ast.NotEq)):
                if known(a) and known(b):
                    same = a == b
                    return same if isinstance(op, (ast.Is, ast.Eq)) else (not same)
                # an object that is certainly not None (an enumeration member, a call result is unknown)
                for x, y in ((a, b), (b, a)):
                    if y == ('c', None) and x[0] in ('e', 't'):
                        return isinstance(op, (ast.IsNot, ast.NotEq))
                if b == ('c', None) and isinstance(t.left, ast.Name) and env.get('?' + t.left.id) in (('none',), ('notnone',), ('truthy',)):
                    is_none = env['?' + t.left.id] == ('none',)
                    return is_none == isinstance(op, (ast.Is, ast.Eq))
            return None
        if isinstance(t, ast.BoolOp):
            vals = [self.truth(v, env) for v in t.values]
            if isinstance(t.op, ast.And):
                if any(v is False for v in vals):
                    return False
                return True if all(v is True for v in vals) else None
            if any(v is True for v in vals):
                return True
            return False if all(v is False for v in vals) else None
        r = self.truthy(self.ev(t, env))
        if r is None and isinstance(t, ast.Name) and ('?' + t.id) in env:
            return self.truthy(env['?' + t.id])
        return r

    # ---- transfer
    def bind(self, target, v, env):
        if isinstance(target, ast.Name):
            env[target.id] = v
            env.pop('?' + target.id, None)
        elif isinstance(target, (ast.Tuple, ast.List)):
            for i, t in enumerate(target.elts):
                if v[0] == 't' and len(v[1]) == len(target.elts):
                    self.bind(t, v[1][i], env)
                else:
                    self.bind(t, self.opaque(('unpack', v, i), ('unpack', v, i)), env)

    def transfer(self, n, env):
        s = n.stmt
        if s is None:
            return
        if n.kind == 'stmt':
            if isinstance(s, ast.Assign):
                v = self.ev(s.value, env)
                for t in s.targets:
                    self.bind(t, v, env)
            elif isinstance(s, ast.AnnAssign) and s.value is not None:
                self.bind(s.target, self.ev(s.value, env), env)
            elif isinstance(s, ast.AugAssign):
                if isinstance(s.target, ast.Name):
                    env[s.target.id] = self.opaque((id(s), env.get(s.target.id)), ('aug', s))
                    env.pop('?' + s.target.id, None)
            elif isinstance(s, ast.Expr):
                c = s.value
                if isinstance(c, ast.Call) and isinstance(c.func, ast.Attribute) and c.func.attr in ('append', 'add', 'insert', 'extend') and isinstance(c.func.value, ast.Name) \
                        and env.get(c.func.value.id, ('?',))[0] in ('t', 'ne') and c.func.attr != 'extend':
                    env[c.func.value.id] = ('ne',)          # grows by one element: non-empty from here on (its length is not tracked - loops stay finite)
                elif isinstance(c, ast.Call) and isinstance(c.func, ast.Attribute) and isinstance(c.func.value, ast.Name) and env.get(c.func.value.id, ('?',))[0] in ('t', 'ne') \
                        and c.func.attr in ('extend', 'pop', 'remove', 'clear', 'discard', 'update', 'sort', 'reverse'):
                    env[c.func.value.id] = self.opaque((id(s), 'mutated'), ('mutated', s))
                else:
                    self.ev(s.value, env)
        elif n.kind == 'loop' and isinstance(s, ast.For):
            self.bind(s.target, self.opaque((id(s), 'iter'), ('iter', s)), env)
        elif n.kind == 'with':
            for it in s.items:
                if it.optional_vars is not None:
                    self.bind(it.optional_vars, self.opaque((id(it), 'with'), ('with', it.context_expr)), env)
        elif n.kind == 'handler' and s.name:
            env[s.name] = self.opaque((id(s), 'exc'), ('exc', s))
            env.pop('?' + s.name, None)

    @staticmethod
    def key(env):
        return tuple(sorted(env.items(), key=lambda kv: kv[0]))

    def run(self, starts, stops, env0=None, loop_labels=('loop', 'continue')):
        """Explore from the start nodes until a node in `stops` is reached (the stop node itself is not executed).
        starts: list of nodes (or (node, env) pairs).  Returns [(stop_node, label_of_last_edge, env)] - one entry per
        distinct (stop node, label, state)."""
        stop_ids = {x.id for x in stops}
        out = {}
        seen = set()
        work = []
        for s in starts:
            n, e = (s if isinstance(s, tuple) else (s, dict(env0 or {})))
            work.append((n, None, dict(e)))
        steps = 0
        while work:
            n, lab, env = work.pop()
            if n.id in stop_ids:
                out[(n.id, lab, self.key(env))] = (n, lab, env)
                continue
            k = (n.id, self.key(env))
            if k in seen:
                continue
            seen.add(k)
            steps += 1
            if steps > self.cap:
                raise AnalysisError('path simulation bound hit in %s' % getattr(self.g.fn, 'name', '?'))
            pre = dict(env)
            if self.hook:
                self.hook(self, n, env)
            self.transfer(n, env)
            t = None
            if n.kind == 'test':
                t = self.truth(n.stmt, pre)
            for m, l in n.succ:
                if n.kind == 'test' and l in ('T', 'F') and t is not None and (l == 'T') != t:
                    continue
                # an exception leaves the statement before its effect: the pre-state flows along 'exc'
                e2 = dict(pre if l == 'exc' else env)
                if n.kind == 'test' and l in ('T', 'F') and t is None:
                    tn, pos = n.stmt, True
                    if isinstance(tn, ast.UnaryOp) and isinstance(tn.op, ast.Not):
                        tn, pos = tn.operand, False
                    if isinstance(tn, ast.Name) and e2.get(tn.id, ('pre',))[0] in ('x', 'pre'):
                        # the value keeps its provenance; the outcome of the test is remembered beside it until the name is rebound
                        e2['?' + tn.id] = ('truthy',) if (l == 'T') == pos else ('falsy',)
                    elif isinstance(tn, ast.Compare) and len(tn.ops) == 1 and isinstance(tn.ops[0], (ast.Is, ast.IsNot, ast.Eq, ast.NotEq)) and isinstance(tn.left, ast.Name) \
                            and isinstance(tn.comparators[0], ast.Constant) and tn.comparators[0].value is None and e2.get(tn.left.id, ('pre',))[0] in ('x', 'pre'):
                        is_none = ((l == 'T') == pos) == isinstance(tn.ops[0], (ast.Is, ast.Eq))
                        e2['?' + tn.left.id] = ('none',) if is_none else (e2.get('?' + tn.left.id) if e2.get('?' + tn.left.id) in (('truthy',), ('falsy',)) else ('notnone',))
                if l == 'exc' and self.hook:
                    # events recorded by the hook for this node (keys '#...') did not happen either
                    pass
                if self.edge_hook:
                    e2 = self.edge_hook(self, n, l, m, e2)
                    if e2 is None:
                        continue
                work.append((m, l, e2))
        return list(out.values())
