"""Parse-time expansion of constant lookup tables ("table-driven" code is read as the if/elif chain it abbreviates).

A *constant table* is a module-level or class-level assignment `NAME = <literal>` (dict / tuple / list / set / frozenset(...)
display whose items are literals, enumeration members, names of functions, lambdas, or nested displays of those) that is
never rebound or mutated anywhere in the module.  It is referenced as NAME, self.NAME, cls.NAME or <Class>.NAME.

  T1  for <targets> in TABLE / TABLE.items() / .keys() / .values():  body     (no break/continue/else, targets not rebound)
        ->  one copy of body per entry with the targets replaced by the entry's literals
  T2  KEY in TABLE  /  KEY not in TABLE          ->  KEY in (k1, k2, ...)  /  KEY not in (...)
  T3  x = TABLE[KEY]            ->  if KEY == k1: x = v1  elif ...  else: raise KeyError(KEY)
      x = TABLE.get(KEY[, d])   ->  if KEY == k1: x = v1  elif ...  else: x = d
      (also `return TABLE[KEY]`, `a, b = TABLE[KEY]`; KEY a name, an attribute chain or a constant-free expression without calls)
  T5  getattr(obj, '<identifier>')  (two arguments)  ->  obj.<identifier>

The rewritten statements keep the line number of the statement they replace.  Tables with more than MAX entries are left alone.
"""
import ast
import copy

MAX = 80
MUTATORS = {'update', 'pop', 'popitem', 'append', 'extend', 'setdefault', 'clear', 'remove', 'insert', 'add', 'discard', 'sort', 'reverse', '__setitem__', '__delitem__'}


def _lit_ok(e, fnames, depth=0):
    if depth > 4:
        return False
    if isinstance(e, ast.Constant):
        return True
    if isinstance(e, ast.Attribute):
        x = e
        n = 0
        while isinstance(x, ast.Attribute):
            x = x.value
            n += 1
        return isinstance(x, ast.Name) and n <= 3
    if isinstance(e, ast.Name):
        return True
    if isinstance(e, ast.Lambda):
        return True
    if isinstance(e, (ast.Tuple, ast.List, ast.Set)):
        return all(_lit_ok(x, fnames, depth + 1) for x in e.elts)
    if isinstance(e, ast.Dict):
        return all(k is not None and _lit_ok(k, fnames, depth + 1) for k in e.keys) and all(_lit_ok(v, fnames, depth + 1) for v in e.values)
    if isinstance(e, ast.Call) and isinstance(e.func, ast.Name) and e.func.id in ('frozenset', 'tuple', 'list', 'set', 'dict') and len(e.args) == 1 and not e.keywords:
        return _lit_ok(e.args[0], fnames, depth + 1)
    if isinstance(e, ast.UnaryOp) and isinstance(e.op, ast.USub) and isinstance(e.operand, ast.Constant):
        return True
    return False


def _unwrap(e):
    while isinstance(e, ast.Call) and isinstance(e.func, ast.Name) and e.func.id in ('frozenset', 'tuple', 'list', 'set', 'dict') and len(e.args) == 1:
        e = e.args[0]
    return e


def _row_strings(tree):
    """{id(setattr/delattr call): set of attribute names} for calls whose computed name is the loop variable of a `for` over a literal
    table of rows (module- or class-level NAME = ((..., 'name', ...), ...)) in which that column holds string constants only: the call
    can set exactly those names"""
    lits = {}
    for s in ast.walk(tree):
        if isinstance(s, ast.Assign) and len(s.targets) == 1 and isinstance(s.targets[0], ast.Name):
            v = _unwrap(s.value)
            if isinstance(v, (ast.Tuple, ast.List)) and v.elts:
                lits.setdefault(s.targets[0].id, []).append(v)
    out = {}
    for f in ast.walk(tree):
        if not isinstance(f, ast.For):
            continue
        it = f.iter
        nm = it.id if isinstance(it, ast.Name) else (it.attr if isinstance(it, ast.Attribute) and isinstance(it.value, ast.Name) else None)
        if nm is None or len(lits.get(nm, [])) != 1:
            continue
        rows = lits[nm][0].elts
        cols = {}
        if isinstance(f.target, ast.Name):
            if all(isinstance(r, ast.Constant) and isinstance(r.value, str) for r in rows):
                cols[f.target.id] = {r.value for r in rows}
        elif isinstance(f.target, (ast.Tuple, ast.List)):
            for i, t in enumerate(f.target.elts):
                if isinstance(t, ast.Name) and all(isinstance(r, (ast.Tuple, ast.List)) and len(r.elts) == len(f.target.elts) and isinstance(r.elts[i], ast.Constant)
                                                   and isinstance(r.elts[i].value, str) for r in rows):
                    cols[t.id] = {r.elts[i].value for r in rows}
        if not cols:
            continue
        stored = {x.id for b in f.body for x in ast.walk(b) if isinstance(x, ast.Name) and isinstance(x.ctx, (ast.Store, ast.Del))}
        for b in f.body:
            for c in ast.walk(b):
                if isinstance(c, ast.Call) and isinstance(c.func, ast.Name) and c.func.id in ('setattr', 'delattr') and len(c.args) >= 2 \
                        and isinstance(c.args[1], ast.Name) and c.args[1].id in cols and c.args[1].id not in stored:
                    out[id(c)] = cols[c.args[1].id]
    return out


def mutated_names(tree, names, defs=(), dynamic=None):
    """the names (bare or as attribute) among `names` that are rebound, deleted, item-assigned, augmented or receive a mutating
    method call anywhere in the module, other than by the defining targets in `defs` (ids of Name nodes)"""
    bad = set()
    row_names = _row_strings(tree)
    for n in ast.walk(tree):
        if isinstance(n, ast.Name) and n.id in names and isinstance(n.ctx, (ast.Store, ast.Del)) and id(n) not in defs:
            bad.add(n.id)
        elif isinstance(n, ast.Attribute) and n.attr in names and isinstance(n.ctx, (ast.Store, ast.Del)) and id(n) not in defs:
            bad.add(n.attr)
        elif isinstance(n, ast.Subscript) and isinstance(n.ctx, (ast.Store, ast.Del)):
            b = n.value
            nm = b.id if isinstance(b, ast.Name) else (b.attr if isinstance(b, ast.Attribute) else None)
            if nm in names:
                bad.add(nm)
        elif isinstance(n, ast.Call) and isinstance(n.func, ast.Attribute) and n.func.attr in MUTATORS:
            b = n.func.value
            nm = b.id if isinstance(b, ast.Name) else (b.attr if isinstance(b, ast.Attribute) else None)
            if nm in names:
                bad.add(nm)
        elif isinstance(n, ast.AugAssign):
            b = n.target
            nm = b.id if isinstance(b, ast.Name) else (b.attr if isinstance(b, ast.Attribute) else None)
            if nm in names:
                bad.add(nm)
        elif isinstance(n, (ast.Global, ast.Nonlocal)):
            bad |= set(n.names) & names
        elif isinstance(n, ast.Call) and isinstance(n.func, ast.Name) and n.func.id in ('setattr', 'delattr') and len(n.args) >= 2:
            a = n.args[1]
            if isinstance(a, ast.Constant) and a.value in names:
                bad.add(a.value)
            elif id(n) in row_names:
                bad |= row_names[id(n)] & set(names)          # the name comes out of a literal table of rows: exactly these
            elif not isinstance(a, ast.Constant) and isinstance(n.args[0], ast.Name) and (n.args[0].id in ('self', 'cls') or n.args[0].id[:1].isupper()):
                # a computed attribute name on the object / class that owns the tables could be any of its class-level names
                bad |= set(names if dynamic is None else dynamic)
    return bad


class Tables:
    def __init__(self, tree):
        self.tree = tree
        self.mod = {}      # NAME -> literal
        self.cls = {}      # (Class, NAME) -> literal
        self.exprs = {}    # NAME -> pure constant expression (struct.pack('<fmt>', 0)): inlined by name, never a table
        fnames = {n.name for n in tree.body if isinstance(n, ast.FunctionDef)}
        cands = []
        for s in tree.body:
            self._cand(s, None, cands, fnames)
            if isinstance(s, ast.ClassDef):
                for t in s.body:
                    self._cand(t, s.name, cands, fnames)
                    # a dispatch table of the instance: self.NAME = {key: self.<method>, ...} as a statement of __init__ (every value a bound
                    # method of the object itself) - read as self.NAME like a class-level table
                    if isinstance(t, ast.FunctionDef) and t.name == '__init__':
                        mnames = {x.name for x in s.body if isinstance(x, ast.FunctionDef)}
                        for st_ in t.body:
                            if isinstance(st_, ast.Assign) and len(st_.targets) == 1 and isinstance(st_.targets[0], ast.Attribute) and isinstance(st_.targets[0].value, ast.Name) \
                                    and st_.targets[0].value.id == 'self' and isinstance(st_.value, ast.Dict) and 0 < len(st_.value.keys) <= MAX and _lit_ok(st_.value, fnames) \
                                    and all(isinstance(v_, ast.Attribute) and isinstance(v_.value, ast.Name) and v_.value.id == 'self' and v_.attr in mnames for v_ in st_.value.values):
                                st_.value._raw = st_.value
                                cands.append((s.name, st_.targets[0].attr, st_.value, st_.targets[0]))
        if not cands:
            return
        # disqualify tables that are rebound or mutated anywhere
        names = {c[1] for c in cands}
        bad = mutated_names(tree, names, {id(c[3]) for c in cands}, dynamic={c[1] for c in cands if c[0] is not None})
        count = {}
        for c in cands:
            count[(c[0], c[1])] = count.get((c[0], c[1]), 0) + 1
        for clsname, nm, lit, tgt in cands:
            if nm in bad or count[(clsname, nm)] != 1:
                continue
            if clsname is None and getattr(lit, '_pure_expr', False):
                self.exprs[nm] = lit
            elif clsname is None:
                self.mod[nm] = lit
            else:
                self.cls[(clsname, nm)] = lit

    @staticmethod
    def _cand(s, clsname, out, fnames):
        if isinstance(s, ast.Assign) and len(s.targets) == 1 and isinstance(s.targets[0], ast.Name) and clsname is None and s.targets[0].id.isupper() \
                and isinstance(s.value, ast.Call) and not s.value.keywords and len(s.value.args) >= 2 \
                and all(isinstance(a, ast.Constant) and type(a.value) in (int, str, bytes) for a in s.value.args) and isinstance(s.value.args[0].value, str):
            f = s.value.func
            if (isinstance(f, ast.Name) and f.id == 'pack') or (isinstance(f, ast.Attribute) and f.attr == 'pack' and isinstance(f.value, ast.Name) and f.value.id == 'struct'):
                s.value._pure_expr = True                                        # NAME = struct.pack('!I', 0): a named constant byte string
                out.append((clsname, s.targets[0].id, s.value, s.targets[0]))
                return
        if isinstance(s, ast.Assign) and len(s.targets) == 1 and isinstance(s.targets[0], ast.Name) and clsname is None \
                and isinstance(s.value, ast.Constant) and not s.targets[0].id.startswith('__') and s.targets[0].id.isupper():
            out.append((clsname, s.targets[0].id, s.value, s.targets[0]))       # NAME = 10 / 'text': a named scalar
            return
        if isinstance(s, ast.Assign) and len(s.targets) == 1 and isinstance(s.targets[0], ast.Name):
            v = _unwrap(s.value)
            if isinstance(v, (ast.Dict, ast.Tuple, ast.List, ast.Set)) and _lit_ok(s.value, fnames):
                n = len(v.keys) if isinstance(v, ast.Dict) else len(v.elts)
                if 0 < n <= MAX:
                    v._raw = s.value           # the expression as written (frozenset([...]) / dict({...})) for name inlining
                    out.append((clsname, s.targets[0].id, v, s.targets[0]))

    def lookup(self, e, clsname):
        """the literal denoted by expression e inside class clsname (None at module level), or None"""
        if isinstance(e, ast.Name):
            # a class-level name is visible by its bare name only inside the class body, not inside methods
            return self.mod.get(e.id)
        if isinstance(e, ast.Attribute) and isinstance(e.value, ast.Name):
            if e.value.id in ('self', 'cls') and clsname is not None:
                return self.cls.get((clsname, e.attr))
            return self.cls.get((e.value.id, e.attr))
        return None


def _entries(lit, how):
    """-> list of element expressions for iteration; how in (None, 'items', 'keys', 'values')"""
    if isinstance(lit, ast.Dict):
        if how == 'items':
            return [ast.Tuple(elts=[k, v], ctx=ast.Load()) for k, v in zip(lit.keys, lit.values)]
        if how == 'values':
            return list(lit.values)
        return list(lit.keys)
    if how is not None:
        return None
    return list(lit.elts)


class _Sub(ast.NodeTransformer):
    def __init__(self, m):
        self.m = m

    def visit_Name(self, node):
        if node.id in self.m and isinstance(node.ctx, ast.Load):
            new = copy.deepcopy(self.m[node.id])
            for x in ast.walk(new):
                ast.copy_location(x, node)
            return new
        return node


def _bind(target, value, m):
    if isinstance(target, ast.Name):
        m[target.id] = value
        return True
    if isinstance(target, (ast.Tuple, ast.List)) and isinstance(value, (ast.Tuple, ast.List)) and len(target.elts) == len(value.elts):
        return all(_bind(t, v, m) for t, v in zip(target.elts, value.elts))
    return False


def _simple_key(e):
    if isinstance(e, (ast.Name, ast.Constant)):
        return True
    if isinstance(e, ast.Attribute):
        return _simple_key(e.value)
    return False


def _arm_aliases(body):
    """inside one arm of a sunk lookup:  v = self.<name>  followed only by reads of v (no other store of v in the arm)  ->  the reads name self.<name>"""
    out = list(body)
    i = 0
    while i < len(out):
        st = out[i]
        if isinstance(st, ast.Assign) and len(st.targets) == 1 and isinstance(st.targets[0], ast.Name) and isinstance(st.value, ast.Attribute) \
                and isinstance(st.value.value, ast.Name) and st.value.value.id == 'self':
            v = st.targets[0].id
            rest = out[i + 1:]
            if rest and not any(isinstance(n, ast.Name) and n.id == v and isinstance(n.ctx, (ast.Store, ast.Del)) for t in rest for n in ast.walk(t)) \
                    and not any(isinstance(n, ast.Attribute) and isinstance(n.ctx, (ast.Store, ast.Del)) and n.attr == st.value.attr for t in rest for n in ast.walk(t)):
                out = out[:i] + [_Sub({v: st.value}).visit(t) for t in rest]
                continue
        i += 1
    return out


class _StructCodecs(ast.NodeTransformer):
    """A precompiled codec `NAME = struct.Struct('<fmt>')` at module or class level (never rebound) is the format string under another
    name: NAME.pack(a, ..) -> struct.pack('<fmt>', a, ..), NAME.unpack(b) -> struct.unpack('<fmt>', b), likewise pack_into / unpack_from /
    iter_unpack; NAME.size -> calcsize('<fmt>') as a constant, NAME.format -> '<fmt>'.  The defining assignment stays."""
    METHODS = ('pack', 'unpack', 'pack_into', 'unpack_from', 'iter_unpack')

    def __init__(self, tree):
        self.mod, self.cls = {}, {}
        cands = []
        for s in tree.body:
            self._cand(s, None, cands)
            if isinstance(s, ast.ClassDef):
                for t in s.body:
                    self._cand(t, s.name, cands)
        if cands:
            names = {c[1] for c in cands}
            bad = mutated_names(tree, names, {id(c[3]) for c in cands}, dynamic={c[1] for c in cands if c[0] is not None})
            count = {}
            for c in cands:
                count[(c[0], c[1])] = count.get((c[0], c[1]), 0) + 1
            for clsname, nm, fmt, tgt in cands:
                if nm in bad or count[(clsname, nm)] != 1:
                    continue
                if clsname is None:
                    self.mod[nm] = fmt
                else:
                    self.cls[(clsname, nm)] = fmt
        self.clsname = None

    @staticmethod
    def _cand(s, clsname, out):
        if isinstance(s, ast.Assign) and len(s.targets) == 1 and isinstance(s.targets[0], ast.Name) and isinstance(s.value, ast.Call) and not s.value.keywords \
                and len(s.value.args) == 1 and isinstance(s.value.args[0], ast.Constant) and isinstance(s.value.args[0].value, str):
            f = s.value.func
            if (isinstance(f, ast.Name) and f.id == 'Struct') or (isinstance(f, ast.Attribute) and f.attr == 'Struct' and isinstance(f.value, ast.Name) and f.value.id == 'struct'):
                import struct
                try:
                    struct.calcsize(s.value.args[0].value)
                except struct.error:
                    return
                out.append((clsname, s.targets[0].id, s.value.args[0].value, s.targets[0]))

    def fmt_of(self, e):
        if isinstance(e, ast.Name) and isinstance(e.ctx, ast.Load):
            return self.mod.get(e.id)
        if isinstance(e, ast.Attribute) and isinstance(e.value, ast.Name):
            if e.value.id in ('self', 'cls') and self.clsname:
                return self.cls.get((self.clsname, e.attr))
            return self.cls.get((e.value.id, e.attr))
        return None

    def visit_ClassDef(self, node):
        old, self.clsname = self.clsname, node.name
        self.generic_visit(node)
        self.clsname = old
        return node

    def visit_Call(self, node):
        self.generic_visit(node)
        f = node.func
        if isinstance(f, ast.Attribute) and f.attr in self.METHODS:
            fmt = self.fmt_of(f.value)
            if fmt is not None:
                fn = ast.Attribute(value=ast.Name(id='struct', ctx=ast.Load()), attr=f.attr, ctx=ast.Load())
                new = ast.Call(func=fn, args=[ast.Constant(value=fmt)] + node.args, keywords=node.keywords)
                for x in ast.walk(new):
                    if not hasattr(x, 'lineno'):
                        ast.copy_location(x, node)
                return ast.copy_location(new, node)
        return node

    def visit_Attribute(self, node):
        self.generic_visit(node)
        if node.attr in ('size', 'format') and isinstance(node.ctx, ast.Load):
            fmt = self.fmt_of(node.value)
            if fmt is not None:
                import struct
                return ast.copy_location(ast.Constant(value=struct.calcsize(fmt) if node.attr == 'size' else fmt), node)
        return node


class _AttrGetters(ast.NodeTransformer):
    """operator.attrgetter('name') / attrgetter('name') with one plain field name is `lambda _o: _o.name`"""
    def visit_Call(self, node):
        self.generic_visit(node)
        f = node.func
        fn = f.attr if isinstance(f, ast.Attribute) and isinstance(f.value, ast.Name) and f.value.id == 'operator' else (f.id if isinstance(f, ast.Name) else None)
        if fn == 'attrgetter' and len(node.args) == 1 and not node.keywords and isinstance(node.args[0], ast.Constant) \
                and isinstance(node.args[0].value, str) and node.args[0].value.isidentifier():
            lam = ast.Lambda(args=ast.arguments(posonlyargs=[], args=[ast.arg(arg='_o')], kwonlyargs=[], kw_defaults=[], defaults=[]),
                             body=ast.Attribute(value=ast.Name(id='_o', ctx=ast.Load()), attr=node.args[0].value, ctx=ast.Load()))
            for x in ast.walk(lam):
                ast.copy_location(x, node)
            return lam
        return node


class Expander:
    def __init__(self, tree):
        if any(isinstance(n, ast.Name) and n.id == 'attrgetter' or isinstance(n, ast.Attribute) and n.attr == 'attrgetter' for n in ast.walk(tree)):
            _AttrGetters().visit(tree)
        sc = _StructCodecs(tree)
        if sc.mod or sc.cls:
            sc.visit(tree)
            _ConstStrings().visit(tree)
        self.t = Tables(tree)
        self.tree = tree
        self.n = 0

    def inline_class_constants(self):
        """`NAME = enums.State.COMPROMISED` / `NAME = 10` in a class body, read as self.NAME / cls.NAME / Class.NAME, never stored through an
        attribute anywhere and defined by no other class of the module: the read is the constant (a named default next to a table)"""
        def const_value(v):
            if isinstance(v, ast.Constant) and type(v.value) in (int, str, bytes, float, bool, type(None)):
                return True
            if isinstance(v, ast.Attribute) and v.attr.isupper():
                r = v
                n = 0
                while isinstance(r, ast.Attribute):
                    r = r.value
                    n += 1
                return isinstance(r, ast.Name) and r.id not in ('self', 'cls') and n >= 2
            return False
        cands = {}
        for c in self.tree.body:
            if not isinstance(c, ast.ClassDef):
                continue
            # members of an Enum class are not constants of that kind (Tags.NAME is the member, not its value)
            if any('Enum' in (ast.unparse(b)) for b in c.bases) or not any(isinstance(x, ast.FunctionDef) for x in c.body):
                continue
            for st_ in c.body:
                if isinstance(st_, ast.Assign) and len(st_.targets) == 1 and isinstance(st_.targets[0], ast.Name) and const_value(st_.value) \
                        and not st_.targets[0].id.startswith('__'):
                    cands.setdefault(st_.targets[0].id, []).append((c.name, st_.value))
        cands = {k: v[0] for k, v in cands.items() if len(v) == 1}
        if not cands:
            return
        for n in ast.walk(self.tree):
            if isinstance(n, ast.Attribute) and isinstance(n.ctx, (ast.Store, ast.Del)) and n.attr in cands:
                cands.pop(n.attr)
            if isinstance(n, ast.Call) and isinstance(n.func, ast.Name) and n.func.id in ('setattr', 'delattr') and n.args:
                a0 = n.args[0]
                owners = {v[0] for v in cands.values()}
                if not isinstance(a0, ast.Name) or a0.id in ('self', 'cls') or a0.id in owners:
                    # a computed attribute store on the class or its instances: any constant may be rebound
                    if not (len(n.args) >= 2 and isinstance(n.args[1], ast.Constant) and n.args[1].value not in cands):
                        cands.clear()
        if not cands:
            return
        # names also bound as instance fields elsewhere (self.X read where X is an __init__ field of another class) are left alone:
        # only reads inside the defining class, or through the class name, are replaced
        tree = self.tree

        class Inl(ast.NodeTransformer):
            def __init__(self_):
                self_.cls = [None]

            def visit_ClassDef(self_, node):
                self_.cls.append(node.name)
                self_.generic_visit(node)
                self_.cls.pop()
                return node

            def visit_Attribute(self_, node):
                self_.generic_visit(node)
                if isinstance(node.ctx, ast.Load) and node.attr in cands and isinstance(node.value, ast.Name):
                    owner, val = cands[node.attr]
                    if (node.value.id in ('self', 'cls') and self_.cls[-1] == owner) or node.value.id == owner:
                        new = copy.deepcopy(val)
                        for x in ast.walk(new):
                            ast.copy_location(x, node)
                        return new
                return node
        Inl().visit(tree)

    def run(self):
        self.inline_class_constants()
        _Getattr().visit(self.tree)
        if self.t.mod or self.t.cls or self.t.exprs:
            self.scope(self.tree.body, None)
            self.inline_names()
            _Getattr().visit(self.tree)
        _ConstStrings().visit(self.tree)
        _Getattr().visit(self.tree)
        return self.tree

    def inline_names(self):
        """a plain read of a module-level constant (a literal that is never rebound or mutated: `ALL_TYPES = (A, B)`, `TABLE_ARGS = {...}`,
        `TIMEOUT = 10`) is replaced by a copy of the literal - naming a literal changes nothing.  Not inside scopes that bind the name."""
        consts = {k: v for k, v in self.t.mod.items() if self._size(v) <= 40}
        consts.update(self.t.exprs)
        if not consts:
            return
        defs = set()
        for st_ in self.tree.body:
            if isinstance(st_, ast.Assign) and len(st_.targets) == 1 and isinstance(st_.targets[0], ast.Name) and st_.targets[0].id in consts:
                defs.add(id(st_.targets[0]))
                defs.add(id(st_))

        class Inl(ast.NodeTransformer):
            def __init__(self_):
                self_.shadow = [set()]

            def _scope(self_, node):
                bound = set()
                a = node.args
                for x in a.posonlyargs + a.args + a.kwonlyargs + ([a.vararg] if a.vararg else []) + ([a.kwarg] if a.kwarg else []):
                    bound.add(x.arg)
                for x in ast.walk(node):
                    if isinstance(x, ast.Name) and isinstance(x.ctx, (ast.Store, ast.Del)):
                        bound.add(x.id)
                self_.shadow.append(bound)
                self_.generic_visit(node)
                self_.shadow.pop()
                return node
            visit_FunctionDef = _scope
            visit_AsyncFunctionDef = _scope
            visit_Lambda = _scope

            def visit_Assign(self_, node):
                if id(node) in defs:
                    return node
                return self_.generic_visit(node)

            def visit_Name(self_, node):
                if isinstance(node.ctx, ast.Load) and node.id in consts and not any(node.id in sh for sh in self_.shadow):
                    new = copy.deepcopy(getattr(consts[node.id], '_raw', consts[node.id]))
                    for x in ast.walk(new):
                        ast.copy_location(x, node)
                    return new
                return node
        Inl().visit(self.tree)

    @staticmethod
    def _size(lit):
        if isinstance(lit, ast.Dict):
            return len(lit.keys)
        if isinstance(lit, (ast.Tuple, ast.List, ast.Set)):
            return len(lit.elts)
        return 1

    def scope(self, body, clsname):
        for s in body:
            if isinstance(s, ast.ClassDef):
                self.scope(s.body, s.name)
            elif isinstance(s, (ast.FunctionDef, ast.AsyncFunctionDef)):
                s.body = self.block(s.body, clsname, s)

    # -- statements
    def callable_lookup(self, s, clsname):
        """s is `x = TABLE[K]` / `x = TABLE.get(K[, None])` and every value of TABLE is a lambda or the name of a module-level function"""
        if not (isinstance(s, ast.Assign) and len(s.targets) == 1 and isinstance(s.targets[0], ast.Name)):
            return None
        found = self.find_lookup(s, clsname)
        if found is None or found[0] is not s.value:
            return None
        node, lit, key, default, raises = found
        fnames = {n.name for n in self.tree.body if isinstance(n, ast.FunctionDef)}
        if all(isinstance(v, ast.Constant) and isinstance(v.value, str) and v.value.isidentifier() for v in lit.values):
            found = found + ('names',)        # a table of attribute / method names: sunk when the result only names an attribute (see sink)
        elif all(isinstance(v, ast.Attribute) and isinstance(v.value, ast.Name) and v.value.id == 'self' for v in lit.values):
            found = found + ('methods',)      # bound methods of the object: never None, called where the result is called
        elif not all(isinstance(v, ast.Lambda) or (isinstance(v, ast.Name) and v.id in fnames)
                     or (isinstance(v, ast.Tuple) and v.elts and all(isinstance(y, ast.Lambda) or (isinstance(y, ast.Name) and y.id in fnames) for y in v.elts))
                     for v in lit.values):
            return None
        if default is not None and not (isinstance(default, ast.Constant) and default.value is None):
            return None
        return found

    def sink(self, s, rest, found, clsname, fn):
        """x = TABLE.get(K); REST   ->   if K == k1: REST[x := v1] elif ... else: REST[x := None]     (values are callables: REST calls x)"""
        node, lit, key, default, raises = found[:5]
        x = s.targets[0].id
        for t in rest:
            for n in ast.walk(t):
                if isinstance(n, ast.Name) and n.id == x and isinstance(n.ctx, (ast.Store, ast.Del)):
                    return None
        if len(found) > 5 and found[5] == 'names':
            # names table: x may only be tested (is None / truth) or name an attribute: getattr(o, x) / setattr(o, x, v) / hasattr(o, x)
            for t in rest:
                for n in ast.walk(t):
                    if not (isinstance(n, ast.Name) and n.id == x):
                        continue
                    p_ = getattr(n, '_tp', None)
            uses = []
            for t in rest:
                parents = {}
                for n in ast.walk(t):
                    for c in ast.iter_child_nodes(n):
                        parents[id(c)] = n
                for n in ast.walk(t):
                    if isinstance(n, ast.Name) and n.id == x:
                        uses.append((n, parents.get(id(n))))
            for n, p_ in uses:
                ok_ = False
                if isinstance(p_, ast.Call) and isinstance(p_.func, ast.Name) and p_.func.id in ('getattr', 'setattr', 'hasattr') and len(p_.args) >= 2 and p_.args[1] is n:
                    ok_ = True
                if isinstance(p_, ast.Compare) and len(p_.ops) == 1 and isinstance(p_.ops[0], (ast.Is, ast.IsNot)) and p_.left is n:
                    ok_ = True
                if isinstance(p_, (ast.If, ast.While)) and p_.test is n:
                    ok_ = True
                if isinstance(p_, ast.UnaryOp) and isinstance(p_.op, ast.Not):
                    ok_ = True
                if not ok_:
                    return None

        fnames = {n.name for n in self.tree.body if isinstance(n, ast.FunctionDef)}

        stored = {}
        for t in rest:
            for n in ast.walk(t):
                if isinstance(n, ast.Name) and isinstance(n.ctx, (ast.Store, ast.Del)):
                    stored[n.id] = stored.get(n.id, 0) + 1

        def arm(val):
            body = []
            m_ = {x: val}
            for t in rest:
                # a, b = x   with x := (v1, v2): the names stand for the elements from here on (each bound exactly once in the rest)
                if isinstance(val, ast.Tuple) and isinstance(t, ast.Assign) and len(t.targets) == 1 and isinstance(t.targets[0], ast.Tuple) \
                        and isinstance(t.value, ast.Name) and t.value.id == x and len(t.targets[0].elts) == len(val.elts) \
                        and all(isinstance(e_, ast.Name) and stored.get(e_.id) == 1 for e_ in t.targets[0].elts):
                    for e_, v_ in zip(t.targets[0].elts, val.elts):
                        m_[e_.id] = v_
                    continue
                if len(found) > 5 and found[5] == 'methods' and isinstance(val, ast.Attribute):
                    val._from_table = True
                nt = _Simplify(fnames, self_methods=(len(found) > 5 and found[5] == 'methods')).visit(_Sub(m_).visit(copy.deepcopy(t)))
                if nt is None:
                    continue
                if len(found) > 5 and found[5] == 'names':
                    nt = [_ConstStrings().visit(_Getattr().visit(y)) for y in (nt if isinstance(nt, list) else [nt])]
                for y in (nt if isinstance(nt, list) else [nt]):
                    body.append(y)
                    if isinstance(y, (ast.Return, ast.Raise)):
                        break          # what follows is dead in this arm
                if body and isinstance(body[-1], (ast.Return, ast.Raise)):
                    break
            if len(found) > 5 and found[5] == 'names':
                body = _arm_aliases(body)
            return self.block(body, clsname, fn) or [ast.copy_location(ast.Pass(), s)]
        if raises:
            tail = [ast.copy_location(ast.Raise(exc=ast.Call(func=ast.Name(id='KeyError', ctx=ast.Load()), args=[copy.deepcopy(key)], keywords=[]), cause=None), s)]
            tail[0]._synthetic_keyerror = True
        else:
            tail = arm(ast.Constant(value=None))
        top = None
        for k, val in reversed(list(zip(lit.keys, lit.values))):
            test = ast.Compare(left=copy.deepcopy(key), ops=[ast.Eq()], comparators=[copy.deepcopy(k)])
            top = ast.If(test=test, body=arm(val), orelse=tail if top is None else [top])
            ast.copy_location(top, s)
            for n in ast.walk(top.test):
                ast.copy_location(n, s)
        ast.fix_missing_locations(top)
        return [top]

    def block(self, stmts, clsname, fn):
        out = []
        for i_, s in enumerate(stmts):
            found = self.callable_lookup(s, clsname) if i_ + 1 < len(stmts) else None
            if found is not None:
                rep = self.sink(s, stmts[i_ + 1:], found, clsname, fn)
                if rep is not None:
                    out.extend(rep)
                    return out
            for fld in ('body', 'orelse', 'finalbody'):
                v = getattr(s, fld, None)
                if isinstance(v, list) and v and isinstance(v[0], ast.stmt) and not isinstance(s, (ast.FunctionDef, ast.AsyncFunctionDef, ast.ClassDef)):
                    setattr(s, fld, self.block(v, clsname, fn))
            if isinstance(s, ast.Try):
                for h in s.handlers:
                    h.body = self.block(h.body, clsname, fn)
            if isinstance(s, (ast.FunctionDef, ast.AsyncFunctionDef)):
                s.body = self.block(s.body, clsname, s)
            rep = None
            if isinstance(s, ast.For):
                rep = self.unroll(s, clsname, fn)
            elif isinstance(s, (ast.Assign, ast.Return, ast.Expr)):
                rep = self.chain(s, clsname)
                if rep is not None:
                    rep = self.block(rep, clsname, fn)        # further lookups inside the arms
            if rep is None:
                self.membership(s, clsname)
                out.append(s)
            else:
                out.extend(rep)
        return out

    def table_of(self, e, clsname):
        """(literal, how) for TABLE / TABLE.items() ..."""
        if isinstance(e, ast.Call) and isinstance(e.func, ast.Attribute) and e.func.attr in ('items', 'keys', 'values') and not e.args and not e.keywords:
            lit = self.t.lookup(e.func.value, clsname)
            if isinstance(lit, ast.Dict):
                return lit, e.func.attr
            return None, None
        lit = self.t.lookup(e, clsname)
        return lit, None

    def unroll(self, s, clsname, fn):
        lit, how = self.table_of(s.iter, clsname)
        if lit is None or s.orelse:
            return None
        ents = _entries(lit, how)
        if ents is None:
            return None
        for n in ast.walk(s):
            if isinstance(n, (ast.Break, ast.Continue)):
                # only loops nested inside may break/continue
                inner = False
                for b in s.body:
                    for x in ast.walk(b):
                        if isinstance(x, (ast.For, ast.While)) and any(y is n for y in ast.walk(x)):
                            inner = True
                if not inner:
                    return None
        tnames = {n.id for n in ast.walk(s.target) if isinstance(n, ast.Name)}
        for b in s.body:
            for n in ast.walk(b):
                if isinstance(n, ast.Name) and n.id in tnames and isinstance(n.ctx, (ast.Store, ast.Del)):
                    return None
        out = []
        for e in ents:
            m = {}
            if not _bind(s.target, e, m):
                return None
            sub = _Sub(m)
            for b in s.body:
                nb = sub.visit(copy.deepcopy(b))
                out.append(nb)
        if not out:
            out = [ast.copy_location(ast.Pass(), s)]
        return out

    def membership(self, s, clsname):
        for n in ast.walk(s):
            if isinstance(n, ast.Compare) and len(n.ops) == 1 and isinstance(n.ops[0], (ast.In, ast.NotIn)):
                lit, how = self.table_of(n.comparators[0], clsname)
                if lit is not None and how in (None, 'keys'):
                    ents = _entries(lit, how)
                    n.comparators[0] = ast.copy_location(ast.Tuple(elts=[copy.deepcopy(e) for e in ents], ctx=ast.Load()), n.comparators[0])

    def find_lookup(self, s, clsname):
        """first TABLE[KEY] / TABLE.get(KEY[, d]) inside the simple statement s (dict tables, simple keys) -> (node, literal, key, default, raises)"""
        for n in ast.walk(s):
            if isinstance(n, ast.Subscript) and not isinstance(n.slice, ast.Slice) and isinstance(n.ctx, ast.Load):
                lit, how = self.table_of(n.value, clsname)
                if isinstance(lit, ast.Dict) and how is None and _simple_key(n.slice) and not isinstance(n.slice, ast.Constant):
                    return n, lit, n.slice, None, True
            if isinstance(n, ast.Call) and isinstance(n.func, ast.Attribute) and n.func.attr == 'get' and 1 <= len(n.args) <= 2 and not n.keywords:
                lit, how = self.table_of(n.func.value, clsname)
                if isinstance(lit, ast.Dict) and how is None and _simple_key(n.args[0]) and not isinstance(n.args[0], ast.Constant):
                    return n, lit, n.args[0], (n.args[1] if len(n.args) == 2 else ast.Constant(value=None)), False
        return None

    def chain(self, s, clsname):
        """case split of a simple statement on the key of the first constant-table lookup it contains: one arm per entry, in which
        the lookup is replaced by the entry's value and the key expression by the entry's key"""
        if isinstance(s, ast.Return) and s.value is None:
            return None
        found = self.find_lookup(s, clsname)
        if found is None:
            return None
        node, lit, key, default, raise_missing = found
        ktxt = ast.dump(key)

        class Rep(ast.NodeTransformer):
            def __init__(self, val, kconst):
                self.val, self.kconst = val, kconst

            def visit(self, n):
                if n is node:
                    return copy.deepcopy(self.val)
                if self.kconst is not None and isinstance(n, (ast.Name, ast.Attribute)) and isinstance(getattr(n, 'ctx', None), ast.Load) and ast.dump(n) == ktxt:
                    return copy.deepcopy(self.kconst)
                return self.generic_visit(n)

        def arm(val, kconst):
            # deepcopy keeps `node` identity out of reach: replace on the original structure copy by position
            return _replace_copy(s, node, val, key, kconst)
        if raise_missing:
            tail = [ast.copy_location(ast.Raise(exc=ast.Call(func=ast.Name(id='KeyError', ctx=ast.Load()), args=[copy.deepcopy(key)], keywords=[]), cause=None), s)]
            tail[0]._synthetic_keyerror = True      # stands for the KeyError of TABLE[KEY] itself
        else:
            tail = [arm(default, None)]
        top = None
        for k, val in reversed(list(zip(lit.keys, lit.values))):
            test = ast.Compare(left=copy.deepcopy(key), ops=[ast.Eq()], comparators=[copy.deepcopy(k)])
            top = ast.If(test=test, body=[arm(val, k)], orelse=tail if top is None else [top])
            ast.copy_location(top, s)
            for x in ast.walk(top.test):
                ast.copy_location(x, s)
        ast.fix_missing_locations(top)
        return [top]


def _replace_copy(stmt, node, val, key, kconst):
    """deep copy of stmt with `node` replaced by val and (when kconst is given) every other occurrence of the key expression by kconst"""
    ktxt = ast.dump(key)

    def rec(n):
        if n is node:
            new = copy.deepcopy(val)
            for x in ast.walk(new):
                ast.copy_location(x, node)
            return new
        if isinstance(n, list):
            return [rec(x) for x in n]
        if not isinstance(n, ast.AST):
            return n
        if kconst is not None and isinstance(n, (ast.Name, ast.Attribute)) and isinstance(getattr(n, 'ctx', None), ast.Load) and ast.dump(n) == ktxt:
            new = copy.deepcopy(kconst)
            for x in ast.walk(new):
                ast.copy_location(x, n)
            return new
        new = type(n)()
        for f in n._fields:
            if hasattr(n, f):
                setattr(new, f, rec(getattr(n, f)))
        for a_ in ('lineno', 'col_offset', 'end_lineno', 'end_col_offset'):
            if hasattr(n, a_):
                setattr(new, a_, getattr(n, a_))
        return new
    return rec(stmt)


class _Getattr(ast.NodeTransformer):
    def visit_Subscript(self, node):
        self.generic_visit(node)
        # enums.<Class>['MEMBER']  ->  enums.<Class>.MEMBER
        v = node.value
        if isinstance(node.ctx, ast.Load) and isinstance(v, ast.Attribute) and isinstance(v.value, ast.Name) and v.value.id == 'enums' and v.attr[:1].isupper() \
                and isinstance(node.slice, ast.Constant) and isinstance(node.slice.value, str) and node.slice.value.isidentifier():
            return ast.copy_location(ast.Attribute(value=v, attr=node.slice.value, ctx=ast.Load()), node)
        return node

    def visit_Call(self, node):
        self.generic_visit(node)
        if isinstance(node.func, ast.Name) and node.func.id == 'getattr' and len(node.args) == 2 and not node.keywords \
                and isinstance(node.args[1], ast.Constant) and isinstance(node.args[1].value, str) and node.args[1].value.isidentifier():
            return ast.copy_location(ast.Attribute(value=node.args[0], attr=node.args[1].value, ctx=ast.Load()), node)
        return node


def expand_tables(tree):
    tree = Expander(tree).run()
    _SplitWrites().run(tree)
    return tree


class _SplitWrites:
    """`S.write(A + B)` as a statement appends A then B to the stream S: it is `S.write(A); S.write(B)` (S a name or an attribute chain
    over a name).  One spelling for `ostream.write(pack(f, v) + PAD)` and the two writes it abbreviates."""

    @staticmethod
    def _pure_recv(e):
        while isinstance(e, ast.Attribute):
            e = e.value
        return isinstance(e, ast.Name)

    def parts(self, e):
        if isinstance(e, ast.BinOp) and isinstance(e.op, ast.Add):
            return self.parts(e.left) + self.parts(e.right)
        return [e]

    def run(self, tree):
        for n in ast.walk(tree):
            for fld in ('body', 'orelse', 'finalbody'):
                v = getattr(n, fld, None)
                if isinstance(v, list) and v and isinstance(v[0], ast.stmt):
                    setattr(n, fld, self.block(v))
            if isinstance(n, ast.Try):
                for h in n.handlers:
                    h.body = self.block(h.body)

    def block(self, stmts):
        out = []
        for s in stmts:
            c = s.value if isinstance(s, ast.Expr) else None
            if isinstance(c, ast.Call) and isinstance(c.func, ast.Attribute) and c.func.attr == 'write' and self._pure_recv(c.func.value) and len(c.args) == 1 and not c.keywords \
                    and isinstance(c.args[0], ast.BinOp) and isinstance(c.args[0].op, ast.Add):
                ps = self.parts(c.args[0])
                # only byte-string building blocks: calls and byte constants (never arithmetic on numbers)
                def surely_bytes(p_):
                    # a bytes constant, or one repeated: b'\x00' * n - concatenation then forces every other operand to be a byte string too
                    if isinstance(p_, ast.Constant) and isinstance(p_.value, bytes):
                        return True
                    return isinstance(p_, ast.BinOp) and isinstance(p_.op, ast.Mult) and any(isinstance(x_, ast.Constant) and isinstance(x_.value, bytes) for x_ in (p_.left, p_.right))
                if all(isinstance(p_, ast.Call) or (isinstance(p_, ast.Constant) and isinstance(p_.value, (bytes, str))) for p_ in ps) or \
                        (any(surely_bytes(p_) for p_ in ps) and all(surely_bytes(p_) or isinstance(p_, (ast.Call, ast.Name, ast.Attribute)) for p_ in ps)):
                    for p_ in ps:
                        call = ast.Call(func=copy.deepcopy(c.func), args=[p_], keywords=[])
                        st_ = ast.Expr(value=call)
                        for x in (call, st_):
                            ast.copy_location(x, p_)
                        ast.fix_missing_locations(st_)
                        out.append(st_)
                    continue
            out.append(s)
        return out


def _simple_test(t):
    if isinstance(t, (ast.Name, ast.Constant)):
        return True
    if isinstance(t, ast.Attribute):
        return _simple_test(t.value)
    if isinstance(t, ast.Compare):
        return _simple_test(t.left) and all(_simple_test(c) for c in t.comparators)
    if isinstance(t, ast.BoolOp):
        return all(_simple_test(v) for v in t.values)
    if isinstance(t, ast.UnaryOp) and isinstance(t.op, ast.Not):
        return _simple_test(t.operand)
    return False


class _Simplify(ast.NodeTransformer):
    """after a callable was substituted for a name: (lambda a: E)(x) -> E[a := x];  <lambda/function/None> is None -> constant; if <constant>: ..."""

    def __init__(self, fnames=(), self_methods=False):
        self.fnames = set(fnames)
        self.self_methods = self_methods       # self.<name> stands for a bound method here (never None)

    def visit_Call(self, node):
        self.generic_visit(node)
        f = node.func
        if isinstance(f, ast.Lambda) and not node.keywords and not f.args.vararg and not f.args.kwarg and not f.args.kwonlyargs and not f.args.defaults \
                and len(f.args.args) == len(node.args) and not any(isinstance(a, ast.Starred) for a in node.args):
            m = {p.arg: a for p, a in zip(f.args.args, node.args)}
            new = _Sub(m).visit(copy.deepcopy(f.body))
            for x in ast.walk(new):
                ast.copy_location(x, node)
            return _Getattr().visit(new)
        return node

    @staticmethod
    def _enum_const(e):
        """enums.<Class>.<MEMBER> -> (Class, MEMBER)"""
        if isinstance(e, ast.Attribute) and e.attr.isupper() and isinstance(e.value, ast.Attribute) and isinstance(e.value.value, ast.Name) and e.value.value.id == 'enums':
            return e.value.attr, e.attr
        return None

    def visit_Compare(self, node):
        self.generic_visit(node)
        if len(node.ops) == 1 and isinstance(node.ops[0], (ast.Eq, ast.NotEq, ast.Is, ast.IsNot)):
            a_, b_ = self._enum_const(node.left), self._enum_const(node.comparators[0])
            # two members of enums.Operation (no aliases in that enumeration) spelled out: the comparison is decided
            if a_ and b_ and a_[0] == b_[0] and (a_ == b_ or a_[0] == 'Operation'):
                return ast.copy_location(ast.Constant(value=(a_ == b_) == isinstance(node.ops[0], (ast.Eq, ast.Is))), node)
        if len(node.ops) == 1 and isinstance(node.ops[0], (ast.Is, ast.IsNot)) and isinstance(node.comparators[0], ast.Constant) and node.comparators[0].value is None:
            l = node.left
            if isinstance(l, ast.Lambda) or (isinstance(l, ast.Name) and l.id in self.fnames) or (isinstance(l, ast.Tuple) and l.elts) \
                    or (self.self_methods and isinstance(l, ast.Attribute) and isinstance(l.value, ast.Name) and l.value.id == 'self' and getattr(l, '_from_table', False)):
                return ast.copy_location(ast.Constant(value=isinstance(node.ops[0], ast.IsNot)), node)
            if isinstance(l, ast.Constant) and l.value is None:
                return ast.copy_location(ast.Constant(value=isinstance(node.ops[0], ast.Is)), node)
            if isinstance(l, ast.Constant) and isinstance(l.value, (str, int, bytes)):
                return ast.copy_location(ast.Constant(value=isinstance(node.ops[0], ast.IsNot)), node)
        return node

    NEG = {ast.Eq: ast.NotEq, ast.NotEq: ast.Eq, ast.Is: ast.IsNot, ast.IsNot: ast.Is, ast.In: ast.NotIn, ast.NotIn: ast.In}

    def visit_If(self, node):
        self.generic_visit(node)
        if isinstance(node.test, ast.Constant) and isinstance(node.test.value, bool):
            return (node.body if node.test.value else node.orelse) or None
        if not node.body:
            # an arm that folded away:  if T: <nothing> else: B  ->  if not T: B ;  both arms empty -> the (side-effect free) test goes too
            t = node.test
            if not node.orelse:
                return ast.copy_location(ast.Pass(), node) if _simple_test(t) else ast.copy_location(ast.Expr(value=t), node)
            if isinstance(t, ast.Compare) and len(t.ops) == 1 and type(t.ops[0]) in self.NEG:
                neg = ast.copy_location(ast.Compare(left=t.left, ops=[self.NEG[type(t.ops[0])]()], comparators=t.comparators), t)
            else:
                neg = ast.copy_location(ast.UnaryOp(op=ast.Not(), operand=t), t)
            return ast.copy_location(ast.If(test=neg, body=node.orelse, orelse=[]), node)
        return node

    def _block(self, node):
        self.generic_visit(node)
        for fld in ('body', 'orelse', 'finalbody'):
            b = getattr(node, fld, None)
            if isinstance(b, list) and fld == 'body' and not b:
                node.body = [ast.copy_location(ast.Pass(), node)]
        return node
    visit_For = visit_While = visit_With = visit_FunctionDef = visit_ExceptHandler = visit_Try = _block


class _ConstStrings(ast.NodeTransformer):
    """constant folding of strings built from constants only: 'a' + 'b', '{}_{}'.format('a', 'b'), f'{"a"}_x', '%s_%s' % ('a', 'b');
    then setattr(o, 'name', v) as a statement is o.name = v  (getattr(o, 'name') is handled by _Getattr)"""

    def visit_BinOp(self, node):
        self.generic_visit(node)
        if isinstance(node.op, ast.Add) and isinstance(node.left, ast.Constant) and isinstance(node.right, ast.Constant) \
                and isinstance(node.left.value, str) and isinstance(node.right.value, str):
            return ast.copy_location(ast.Constant(value=node.left.value + node.right.value), node)
        if isinstance(node.op, ast.Mod) and isinstance(node.left, ast.Constant) and isinstance(node.left.value, str):
            r = node.right
            vals = None
            if isinstance(r, ast.Constant) and isinstance(r.value, (str, int)):
                vals = (r.value,)
            elif isinstance(r, ast.Tuple) and all(isinstance(x, ast.Constant) and isinstance(x.value, (str, int)) for x in r.elts):
                vals = tuple(x.value for x in r.elts)
            if vals is not None:
                try:
                    return ast.copy_location(ast.Constant(value=node.left.value % vals), node)
                except (TypeError, ValueError):
                    pass
        return node

    def visit_Call(self, node):
        self.generic_visit(node)
        f = node.func
        if isinstance(f, ast.Attribute) and f.attr == 'format' and isinstance(f.value, ast.Constant) and isinstance(f.value.value, str) and not node.keywords \
                and node.args and all(isinstance(a, ast.Constant) and isinstance(a.value, (str, int)) for a in node.args):
            try:
                return ast.copy_location(ast.Constant(value=f.value.value.format(*[a.value for a in node.args])), node)
            except (IndexError, KeyError, ValueError):
                pass
        return node

    def visit_JoinedStr(self, node):
        self.generic_visit(node)
        parts = []
        for v in node.values:
            if isinstance(v, ast.Constant) and isinstance(v.value, str):
                parts.append(v.value)
            elif isinstance(v, ast.FormattedValue) and v.conversion == -1 and v.format_spec is None and isinstance(v.value, ast.Constant) and isinstance(v.value.value, (str, int)):
                parts.append(str(v.value.value))
            else:
                return node
        return ast.copy_location(ast.Constant(value=''.join(parts)), node)

    def visit_Expr(self, node):
        self.generic_visit(node)
        c = node.value
        if isinstance(c, ast.Call) and isinstance(c.func, ast.Name) and c.func.id == 'setattr' and len(c.args) == 3 and not c.keywords \
                and isinstance(c.args[1], ast.Constant) and isinstance(c.args[1].value, str) and c.args[1].value.isidentifier():
            tgt = ast.copy_location(ast.Attribute(value=c.args[0], attr=c.args[1].value, ctx=ast.Store()), c)
            return ast.copy_location(ast.Assign(targets=[tgt], value=c.args[2]), node)
        return node
