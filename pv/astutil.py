"""Small AST helpers shared by all rules."""
import ast

from .source import AnalysisError


def U(node):
    """Normalised source text of a node (used for keys, never for matching code fragments)."""
    if node is None:
        return ''
    try:
        return ast.unparse(node)
    except Exception:
        return type(node).__name__


def short(node, n=90):
    s = ' '.join(U(node).split())
    return s if len(s) <= n else s[:n - 3] + '...'


def dotted(node):
    """'a.b.c' for Name/Attribute chains, else None."""
    parts = []
    while isinstance(node, ast.Attribute):
        parts.append(node.attr)
        node = node.value
    if isinstance(node, ast.Name):
        parts.append(node.id)
        return '.'.join(reversed(parts))
    return None


def classes(tree):
    """All classes (incl. nested) -> {qualname: node}."""
    out = {}

    def rec(body, prefix):
        for n in body:
            if isinstance(n, ast.ClassDef):
                q = prefix + n.name
                out[q] = n
                rec(n.body, q + '.')
    rec(tree.body, '')
    return out


def get_class(tree, name, rel='?'):
    c = classes(tree).get(name)
    if c is None:
        raise AnalysisError('anchor vanished: class %s in %s' % (name, getattr(tree, '_rel', rel)))
    return c


def methods(cls):
    return {n.name: n for n in cls.body if isinstance(n, (ast.FunctionDef, ast.AsyncFunctionDef))}


def get_method(cls, name, optional=False, raw=False):
    """the method; helpers of the same class that were introduced after the rules were written are expanded in place (pv/inline.py)"""
    m = methods(cls).get(name)
    if m is None and not optional:
        raise AnalysisError('anchor vanished: method %s.%s' % (cls.name, name))
    if m is None or raw:
        return m
    from .inline import flat
    return flat(cls, m)


def module_functions(tree):
    return {n.name: n for n in tree.body if isinstance(n, ast.FunctionDef)}


def get_function(tree, name):
    f = module_functions(tree).get(name)
    if f is None:
        raise AnalysisError('anchor vanished: function %s in %s' % (name, getattr(tree, '_rel', '?')))
    from .inline import flat
    return flat(tree, f)


def all_functions(tree):
    """Yield (qualname, node, class_node_or_None) for every def, including nested ones."""
    def rec(body, prefix, cls):
        for n in body:
            if isinstance(n, ast.ClassDef):
                yield from rec(n.body, prefix + n.name + '.', n)
            elif isinstance(n, (ast.FunctionDef, ast.AsyncFunctionDef)):
                if cls is not None and n in cls.body and getattr(cls, '_parent', None) is not None:
                    # helpers introduced after the rules were written: expanded into their callers (pv/inline.py)
                    from .inline import flat_methods
                    fm, absorbed = flat_methods(cls)
                    if n.name in absorbed:
                        continue
                    n = fm.get(n.name, n) if isinstance(n, ast.FunctionDef) else n
                yield prefix + n.name, n, cls
                yield from rec(n.body, prefix + n.name + '.', cls)
            elif isinstance(n, (ast.If, ast.Try, ast.With, ast.For, ast.While)):
                for fld in ('body', 'orelse', 'finalbody'):
                    yield from rec(getattr(n, fld, []) or [], prefix, cls)
                for h in getattr(n, 'handlers', []) or []:
                    yield from rec(h.body, prefix, cls)
    yield from rec(tree.body, '', None)


def parent(node):
    return getattr(node, '_parent', None)


def ancestors(node):
    n = parent(node)
    while n is not None:
        yield n
        n = parent(n)


def enclosing_function(node):
    for a in ancestors(node):
        if isinstance(a, (ast.FunctionDef, ast.AsyncFunctionDef, ast.Lambda)):
            return a
    return None


def qualname(node):
    """Qualified name of the def/class enclosing (or being) node."""
    parts = []
    n = node
    while n is not None:
        if isinstance(n, (ast.FunctionDef, ast.AsyncFunctionDef, ast.ClassDef)):
            parts.append(n.name)
        n = parent(n)
    return '.'.join(reversed(parts)) or '<module>'


def walk_local(fn):
    """ast.walk over a function body without descending into nested defs/classes (lambdas are descended)."""
    stack = list(fn.body) if isinstance(fn, (ast.FunctionDef, ast.AsyncFunctionDef)) else [fn]
    while stack:
        n = stack.pop()
        yield n
        for c in ast.iter_child_nodes(n):
            if isinstance(c, (ast.FunctionDef, ast.AsyncFunctionDef, ast.ClassDef)):
                continue
            stack.append(c)


def calls_in(node, local=True):
    it = walk_local(node) if local and isinstance(node, (ast.FunctionDef,)) else ast.walk(node)
    return [n for n in it if isinstance(n, ast.Call)]


def call_name(call):
    return dotted(call.func)


def is_self_attr(node, attr=None):
    return (isinstance(node, ast.Attribute) and isinstance(node.value, ast.Name)
            and node.value.id == 'self' and (attr is None or node.attr == attr))


def kwarg(call, name, pos=None):
    for k in call.keywords:
        if k.arg == name:
            return k.value
    if pos is not None and len(call.args) > pos:
        return call.args[pos]
    return None


def const(node):
    return node.value if isinstance(node, ast.Constant) else None


def enum_member(node, enum_cls=None):
    """enums.X.MEMBER / X.MEMBER -> (X, MEMBER) else None."""
    if not isinstance(node, ast.Attribute):
        return None
    v = node.value
    cls = v.attr if isinstance(v, ast.Attribute) else (v.id if isinstance(v, ast.Name) else None)
    m = node.attr
    if cls and cls[:1].isupper() and m[:1].isalpha():
        in_enums = isinstance(v, ast.Attribute) and isinstance(v.value, ast.Name) and v.value.id == 'enums'
        if m == m.upper() or (in_enums and m[:1].isupper()):
            if enum_cls is None or cls == enum_cls:
                return (cls, m)
    return None


def params(fn, skip_self=True):
    a = fn.args
    names = [x.arg for x in a.posonlyargs + a.args]
    if skip_self and names and names[0] in ('self', 'cls'):
        names = names[1:]
    return names + [x.arg for x in a.kwonlyargs]


def bind_args(fn, call, skip_self=True):
    """Map parameter name -> argument expression for a call of fn."""
    ps = params(fn, skip_self)
    out = {}
    for p, a in zip(ps, call.args):
        out[p] = a
    for k in call.keywords:
        if k.arg is not None:
            out[k.arg] = k.value
    return out


def site(rel, node, qual=None):
    return '%s:%s %s' % (rel, getattr(node, 'lineno', '?'), qual or qualname(node))


def decorator_names(fn):
    out = []
    for d in fn.decorator_list:
        if isinstance(d, ast.Call):
            out.append((dotted(d.func), d))
        else:
            out.append((dotted(d), None))
    return out


def stores_in(node):
    """All store targets (Name/Attribute/Subscript) including aug-assign, for, with, del."""
    out = []
    for n in ast.walk(node):
        if isinstance(n, (ast.Name, ast.Attribute, ast.Subscript)) and isinstance(getattr(n, 'ctx', None), (ast.Store, ast.Del)):
            out.append(n)
    return out


def walk_flat(tree, *flat_fns):
    """ast.walk over a module in which the functions given (results of get_method / get_function, possibly with helpers
    expanded in place) replace their originals, so that node identities agree with CFGs built from the flat functions.
    A helper that was expanded and is called from nowhere else (only from the flat functions' originals or from other
    expanded helpers) is skipped: its statements are already seen inside the caller."""
    repl = {id(getattr(f, '_flat_of', f)): f for f in flat_fns}
    expanded = set()
    for f in flat_fns:
        expanded |= set(getattr(f, '_expanded', ()))
    skip = set()
    if expanded:
        origs = set(repl)
        helper_nodes = {}
        for n in ast.walk(tree):
            if isinstance(n, ast.FunctionDef) and n.name in expanded:
                helper_nodes.setdefault(n.name, []).append(n)
        inside = set()       # ids of nodes inside the originals of the flat functions or inside expanded helpers
        for n in ast.walk(tree):
            if id(n) in origs or (isinstance(n, ast.FunctionDef) and n.name in expanded):
                for x in ast.walk(n):
                    inside.add(id(x))
        called_elsewhere = set()
        for n in ast.walk(tree):
            if id(n) in inside:
                continue
            if isinstance(n, ast.Attribute) and n.attr in expanded:
                called_elsewhere.add(n.attr)
            if isinstance(n, ast.Name) and n.id in expanded:
                called_elsewhere.add(n.id)
        for name, nodes in helper_nodes.items():
            if name not in called_elsewhere:
                skip |= {id(x) for x in nodes}
    st = [tree]
    while st:
        n = st.pop()
        if id(n) in skip:
            continue
        if id(n) in repl:
            n = repl[id(n)]
        yield n
        st.extend(ast.iter_child_nodes(n))


def instance_table(cls, attr):
    """the dict literal `self.<attr> = {...}` assigned exactly once in the class (in __init__) and never mutated / rebound anywhere in it, else None"""
    init = methods(cls).get('__init__')
    if init is None:
        return None
    lits = []
    for m_ in methods(cls).values():
        for n in ast.walk(m_):
            if isinstance(n, ast.Attribute) and n.attr == attr and isinstance(n.value, ast.Name) and n.value.id == 'self':
                p_ = getattr(n, '_parent', None)
                if isinstance(n.ctx, (ast.Store, ast.Del)):
                    if m_ is init and isinstance(p_, ast.Assign) and len(p_.targets) == 1 and isinstance(p_.value, ast.Dict):
                        lits.append(p_.value)
                    else:
                        return None
                elif isinstance(p_, ast.Subscript) and isinstance(p_.ctx, (ast.Store, ast.Del)):
                    return None
                elif isinstance(p_, ast.Attribute) and p_.attr in ('update', 'pop', 'popitem', 'clear', 'setdefault', '__setitem__', '__delitem__'):
                    return None
    return lits[0] if len(lits) == 1 else None


def table_callees(cls, fn, call):
    """call is `f(...)` with f a local bound exactly once in fn, by `f = self.<T>.get(K[, None])` or `f = self.<T>[K]`, T an instance table of
    the class (instance_table): -> [(key node, value node)] - the callees f can denote, each under K == key - else None"""
    if not isinstance(call.func, ast.Name):
        return None
    f = call.func.id
    defs = [n for n in walk_local(fn) if isinstance(n, ast.Assign) and any(isinstance(x, ast.Name) and x.id == f for t in n.targets for x in ast.walk(t))]
    others = [n for n in walk_local(fn) if isinstance(n, ast.Name) and n.id == f and isinstance(n.ctx, (ast.Store, ast.Del))]
    if len(defs) != 1 or len(others) != 1 or len(defs[0].targets) != 1 or not isinstance(defs[0].targets[0], ast.Name):
        return None
    v = defs[0].value
    tab = None
    if isinstance(v, ast.Call) and isinstance(v.func, ast.Attribute) and v.func.attr == 'get' and 1 <= len(v.args) <= 2 and not v.keywords:
        if len(v.args) == 2 and not (isinstance(v.args[1], ast.Constant) and v.args[1].value is None):
            return None
        tab = v.func.value
    elif isinstance(v, ast.Subscript):
        tab = v.value
    if not (isinstance(tab, ast.Attribute) and isinstance(tab.value, ast.Name) and tab.value.id == 'self'):
        return None
    lit = instance_table(cls, tab.attr)
    if lit is None or any(k is None for k in lit.keys):
        return None
    return list(zip(lit.keys, lit.values))


def find_dict_literal(cls, expr, depth=0, fn=None):
    """The one dict display an expression denotes when it is written directly, wrapped in a copying / read-only wrapper (dict(), copy(),
    types.MappingProxyType()), or produced by argument-less helper methods of the class that return such an expression - possibly through a
    build-once cache (a local / class attribute tested against None before it is filled).  None when there is not exactly one display."""
    WRAPPERS = ('dict', 'copy.copy', 'copy.deepcopy', 'types.MappingProxyType', 'MappingProxyType', 'collections.OrderedDict', 'OrderedDict')
    found = []

    def walk(e, d, seen):
        if d > 8 or e is None:
            return
        if isinstance(e, ast.Dict):
            if not any(x is e for x in found) and not any(ast.dump(x) == ast.dump(e) for x in found):     # the display and its copy in an expanded caller are one
                found.append(e)
            return
        if isinstance(e, (ast.Name, ast.Attribute)) and fn is not None and d < 8:
            # a local (or a build-once cache field) inside a wrapper: dict(<local>), where the local was left by an expanded helper
            return walk_ret(fn, e, d + 1, seen)
        if isinstance(e, ast.Call):
            cn = call_name(e) or ''
            if cn in WRAPPERS and len(e.args) == 1 and not e.keywords:
                return walk(e.args[0], d + 1, seen)
            f = e.func
            if isinstance(f, ast.Attribute) and isinstance(f.value, ast.Name) and f.value.id in ('self', 'cls', cls.name) and not e.args and not e.keywords:
                m = methods(cls).get(f.attr)
                if m is not None and f.attr not in seen:
                    for r in [x for x in walk_local(m) if isinstance(x, ast.Return) and x.value is not None]:
                        walk_ret(m, r.value, d + 1, seen | {f.attr})
            return

    def walk_ret(m, v, d, seen):
        if isinstance(v, ast.Name):
            for a in [x for x in walk_local(m) if isinstance(x, ast.Assign) and any(isinstance(t, ast.Name) and t.id == v.id for t in x.targets)]:
                walk_ret(m, a.value, d + 1, seen) if isinstance(a.value, (ast.Name, ast.Attribute)) and d < 8 else walk(a.value, d, seen)
        elif isinstance(v, ast.Attribute) and isinstance(v.value, ast.Name) and v.value.id in ('cls', 'self', cls.name):
            # a build-once cache kept on the class / instance: whatever the class assigns to it
            for m2 in methods(cls).values():
                for a in [x for x in walk_local(m2) if isinstance(x, ast.Assign)]:
                    if any(isinstance(t, ast.Attribute) and t.attr == v.attr and isinstance(t.value, ast.Name) and t.value.id in ('cls', 'self', cls.name) for t in a.targets):
                        if isinstance(a.value, ast.Name):
                            walk_ret(m2, a.value, d + 1, seen)
                        else:
                            walk(a.value, d + 1, seen)
        else:
            walk(v, d, seen)
    if fn is not None and isinstance(expr, (ast.Name, ast.Attribute)):
        walk_ret(fn, expr, depth, set())
    else:
        walk(expr, depth, set())
    return found[0] if len(found) == 1 else None
