"""Thorough-tier self-test: the rules must fire on seeded violations of today's code and stay silent on
semantics-preserving rewrites.  Variants are in-memory edits (SourceSet overlay); nothing is written to /repo.
A self-test failure means the checker is wrong (ANALYSIS-ERROR, exit 2), not that the code is."""
import ast
import importlib
import multiprocessing
import os
import time

from .source import SourceSet, AnalysisError
from .report import Ctx


def _findings_of(prop, src):
    mod = importlib.import_module('pv.rules.' + prop.lower())
    ctx = Ctx(prop, 'quick', src, 0)
    mod.run(ctx)
    return sorted(set((f.rule, f.full_key(), f.site) for f in ctx.findings))


def _apply(src, edits):
    """edits: list of (rel, old, new); returns new SourceSet or None when an anchor text is not present exactly once."""
    s = src
    for rel, old, new in edits:
        try:
            txt = s.text(rel)
        except AnalysisError:
            return None
        if txt.count(old) != 1:
            return None
        s = s.with_overlay(rel, txt.replace(old, new))
    return s


def _run_variant(args):
    prop, root, overlay, variant = args
    t0 = time.time()
    src = SourceSet(root, overlay)
    name = variant['name']
    try:
        if variant.get('kind') == 'transform':
            from .transforms import TRANSFORMS
            s2 = src
            for rel in variant['rels']:
                try:
                    s2 = s2.with_overlay(rel, TRANSFORMS[variant['tname']](src.text(rel)))
                except AnalysisError:
                    return dict(name=name, status='skipped', why='file missing', t=0)
        elif variant.get('kind') == 'patch':
            from .patching import apply as apply_patch, PatchError
            try:
                with open(variant['path']) as fh:
                    s2 = apply_patch(src, fh.read())
            except (PatchError, AnalysisError, OSError) as e:
                return dict(name=name, status='skipped', why='patch does not apply to the tree under analysis (%s)' % e, t=0)
        elif variant.get('kind') == 'unparse':
            s2 = src
            for rel in variant['rels']:
                try:
                    s2 = s2.with_overlay(rel, ast.unparse(ast.parse(src.text(rel))))
                except AnalysisError:
                    return dict(name=name, status='skipped', why='file missing', t=0)
        else:
            s2 = _apply(src, variant['edits'])
            if s2 is None:
                return dict(name=name, status='skipped', why='anchor text not present exactly once (code changed)', t=0)
        base = set(variant['_base'])
        try:
            got = set(_findings_of(prop, s2))
        except AnalysisError as e:
            if variant['expect'] == 'fire' and variant.get('error_ok'):
                return dict(name=name, status='ok', detail='analysis refuses the variant: %s' % e, t=time.time() - t0)
            if variant.get('refused_ok'):
                # a recorded limitation (benign/<id>/meta.json analysis_refuses): the check cannot read this restructuring and says so (exit 2) -
                # not a verdict, and never a report against correct code
                return dict(name=name, status='skipped', why='recorded limitation - the analysis refuses this benign restructuring: %s' % str(e)[:160], t=time.time() - t0)
            return dict(name=name, status='failed', why='analysis error on variant: %s' % e, t=time.time() - t0)
        base_keys = set((f[0], f[1]) for f in base)
        new = sorted(f for f in got if (f[0], f[1]) not in base_keys)
        # a finding of the unchanged tree whose construct moved to another function of the same class is the same finding (pv/report.py)
        def _parts(key):
            p_ = key.split('|')
            return (p_[0], p_[1].split('.')[0], '|'.join(p_[2:])) if len(p_) >= 3 and '.' in p_[1] else None
        for f in list(new):
            if _parts(f[1]) and any(g[1] in set(b[1] for b in base) and _parts(g[1]) == _parts(f[1]) and g[2].split(' ')[0] == f[2].split(' ')[0] for g in got):
                new.remove(f)          # the same source line, seen once more inside / outside an expanded helper
        got_keys = set(f[1] for f in got)
        gone = [b for b in base if b[1] not in got_keys and _parts(b[1])]
        for b in gone:
            same = [f for f in new if _parts(f[1]) == _parts(b[1])]
            if len(same) == 1:
                new.remove(same[0])
        if variant['expect'] == 'silent':
            if new:
                return dict(name=name, status='failed', why='a semantics-preserving rewrite raised %s' % new[:3], t=time.time() - t0)
            return dict(name=name, status='ok', detail='silent', t=time.time() - t0)
        rule = variant.get('rule')
        must = variant.get('must_name', '')
        hits = [f for f in new if (rule is None or f[0] == rule) and (must in f[1] or must in f[2])]
        if hits:
            return dict(name=name, status='ok', detail='fired %s' % hits[0][1], t=time.time() - t0)
        if any((rule is None or f[0] == rule) and (must in f[1] or must in f[2]) for f in base):
            return dict(name=name, status='skipped', why='the tree under analysis already violates this instance', t=time.time() - t0)
        return dict(name=name, status='failed', why='seeded violation not reported by %s (new findings: %s)' % (rule, new[:3]), t=time.time() - t0)
    except Exception as e:      # noqa
        import traceback
        return dict(name=name, status='failed', why='internal error: %s' % traceback.format_exc()[-400:], t=time.time() - t0)


def run_selftest(ctx):
    """Run the variants registered for ctx.prop; record results in ctx; raise AnalysisError on a failed variant."""
    prop = ctx.prop
    try:
        vmod = importlib.import_module('pv.variants.' + prop.lower())
    except ImportError:
        ctx.note('self-test: no variants registered for %s' % prop)
        return
    variants = [dict(v) for v in vmod.VARIANTS]
    # generic semantics-preserving transformations of the modules the property's unparse variant names
    from .transforms import TRANSFORMS
    for v in list(variants):
        if v.get('kind') == 'unparse':
            for tname in sorted(TRANSFORMS):
                variants.append(dict(name='%s@%s' % (tname, v['name']), kind='transform', tname=tname, rels=v['rels'], expect='silent'))
    # the kept seeded defects of this property (each must be reported by a rule of this property) and every kept benign change
    # that touches a file this property consults (each must stay silent), replayed in memory from /verif/seeded and /verif/benign
    verif = os.path.dirname(os.path.dirname(os.path.abspath(__file__)))
    consulted = set(ctx.src.consulted)
    for kind_, expect in (('seeded', 'fire'), ('benign', 'silent')):
        d0 = os.path.join(verif, kind_)
        if not os.path.isdir(d0):
            continue
        for sid in sorted(os.listdir(d0)):
            pth = os.path.join(d0, sid, 'patch.diff')
            if not os.path.isfile(pth):
                continue
            if kind_ == 'seeded':
                if sid[:3] != prop:
                    continue
                # seeds that this property's own check is not expected to report (recorded in meta.json at acceptance) are listed as a note
                try:
                    import json
                    with open(os.path.join(d0, sid, 'meta.json')) as fh:
                        by = json.load(fh).get('detected_by', [])
                except (OSError, ValueError):
                    by = []
                if not any(x.startswith(prop + '.') for x in by):
                    ctx.note('seeded defect %s is not reported by the rules of %s (see DESIGN.md section 11.6)' % (sid, prop))
                    continue
            refused_ok = False
            if kind_ == 'benign':
                with open(pth) as fh:
                    touched = set(l[6:].strip() for l in fh if l.startswith('+++ b/'))
                if not (touched & consulted):
                    continue
                try:
                    import json
                    with open(os.path.join(d0, sid, 'meta.json')) as fh:
                        refused_ok = prop in (json.load(fh).get('analysis_refuses') or [])
                except (OSError, ValueError):
                    refused_ok = False
            variants.append(dict(name='%s/%s' % (kind_, sid), kind='patch', path=pth, expect=expect, rule=None, must_name='', refused_ok=refused_ok))
    base = _findings_of(prop, ctx.src)
    for v in variants:
        v['_base'] = base
    jobs = [(prop, ctx.src.root, ctx.src.overlay, v) for v in variants]
    seed = ctx.seed
    if seed:
        import random
        random.Random(seed).shuffle(jobs)
    n = min(16, max(1, len(jobs)))
    with multiprocessing.Pool(n) as pool:
        results = pool.map(_run_variant, jobs)
    ok = [r for r in results if r['status'] == 'ok']
    skipped = [r for r in results if r['status'] == 'skipped']
    failed = [r for r in results if r['status'] == 'failed']
    ctx.analysed['selftest_variants'] = len(results)
    ctx.analysed['selftest_ok'] = len(ok)
    ctx.analysed['selftest_skipped'] = len(skipped)
    ctx.selftest = results
    for r in ok:
        ctx.ok('%s.SELFTEST' % prop, 'variant %s' % r['name'], r.get('detail', ''))
    for r in skipped:
        ctx.note('self-test variant %s skipped: %s' % (r['name'], r['why']))
    if failed:
        raise AnalysisError('self-test: %d variant(s) failed: %s' % (len(failed), '; '.join('%s: %s' % (r['name'], r['why']) for r in failed[:4])))
