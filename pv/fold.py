"""Constant folding of small pure functions over a FINITE domain of model values.

Some rules are about a decision that depends on a handful of discrete inputs only (the six protocol versions x the four
gate thresholds; the KMIPVersion members).  Instead of recognising one spelling of the decision, the rule folds the
function's own statements for every combination of those inputs and compares the outcome with the specification.  This is
exhaustive evaluation of an abstract, finite input space on the AST - nothing of PyKMIP is imported or executed.

Supported: constants, names, tuples/lists, arithmetic, comparisons (chained), and/or/not, conditional expressions,
subscripts, comprehensions over folded iterables, str/int/float/len/tuple/list/bool/min/max/abs/map/zip/enumerate/range/
sorted/any/all, str.split/join/format/strip/startswith/endswith/lower/upper, dict literals with .get/[]/in, attribute
access on model objects, calls of model constructors, assignment, if/elif/else, for over folded iterables, return, raise.
Anything else -> Unfoldable (the caller turns that into "unrecognised construct", never into a verdict).
"""
import ast
import copy
import operator

from .astutil import dotted, enum_member


class Unfoldable(Exception):
    pass


class Captured(Exception):
    """Folder.capture_returns: the return statement reached, with the environment at that point"""
    def __init__(self, node, env):
        Exception.__init__(self, 'captured return')
        self.node, self.env = node, env


class EnumClass:
    """model of an enumeration class (enums.<Name>)"""
    def __init__(self, name):
        self.name = name

    def __eq__(self, o):
        return isinstance(o, EnumClass) and o.name == self.name

    def __hash__(self):
        return hash(('EnumClass', self.name))

    def __repr__(self):
        return 'enums.%s' % self.name


TYPES = {'str': str, 'int': int, 'bytes': bytes, 'list': list, 'tuple': tuple, 'dict': dict, 'bool': bool, 'float': float, 'bytearray': bytearray, 'set': set, 'frozenset': frozenset}


class ClassRef:
    """a class of the analysed module that is not an enumeration: usable in isinstance(x, Cls) against the models (a Version is a ProtocolVersion,
    a model object built by new_object is an instance of its class)"""
    def __init__(self, name):
        self.name = name

    def __repr__(self):
        return '<class %s>' % self.name


class MemberProbe:
    """stands for 'any value': the first `probe in <container>` test reached raises ProbeHit with the container"""
    def __repr__(self):
        return '<probe>'


class ProbeHit(Exception):
    def __init__(self, container, negated, node):
        Exception.__init__(self, 'probe')
        self.container, self.negated, self.node = container, negated, node


class Raised(Exception):
    def __init__(self, name, node):
        Exception.__init__(self, name)
        self.name, self.node = name, node


class Version:
    """model of contents.ProtocolVersion: ordered lexicographically on (major, minor) (C16.R9 decides that the real operators are)"""
    def __init__(self, major, minor):
        self.major, self.minor = major, minor

    def _k(self):
        return (self.major, self.minor)

    def __eq__(self, o):
        return isinstance(o, Version) and self._k() == o._k()

    def __ne__(self, o):
        return not self == o

    def __lt__(self, o):
        return self._k() < o._k()

    def __le__(self, o):
        return self._k() <= o._k()

    def __gt__(self, o):
        return self._k() > o._k()

    def __ge__(self, o):
        return self._k() >= o._k()

    def __hash__(self):
        return hash(self._k())

    def __str__(self):
        return '%d.%d' % self._k()

    def __repr__(self):
        return 'ProtocolVersion(%d, %d)' % self._k()


class Enum:
    """model of an enumeration member"""
    def __init__(self, cls, member):
        self.cls, self.name = cls, member

    def __eq__(self, o):
        return isinstance(o, Enum) and (self.cls, self.name) == (o.cls, o.name)

    def __hash__(self):
        return hash((self.cls, self.name))

    def __repr__(self):
        return '%s.%s' % (self.cls, self.name)


class ExtRef:
    """a class or function of another module, known by its dotted name only (Folder.ext_refs): calling it yields a Built record"""
    def __init__(self, name, bound=None):
        self.name, self.bound = name, dict(bound or {})

    def __eq__(self, o):
        return isinstance(o, ExtRef) and o.name == self.name and o.bound == self.bound

    def __hash__(self):
        return hash(('ExtRef', self.name))

    def __repr__(self):
        return 'ExtRef(%s)' % self.name


class Built:
    """the object an external constructor / function call yields: what was called, with which arguments"""
    def __init__(self, name, args, kw):
        self.name, self.args, self.kw = name, list(args), dict(kw)

    def __repr__(self):
        return 'Built(%s)' % self.name


class _PartialOf:
    def __init__(self, func, args, kw):
        self.func, self.args, self.kw = func, list(args), dict(kw)


class BoundMethod:
    def __init__(self, fn, selfv):
        self.fn, self.selfv = fn, selfv


class Opaque:
    """a call whose result does not matter for the decision (the wrapped function, a logger call)"""
    def __init__(self, what):
        self.what = what

    def __repr__(self):
        return '<%s>' % self.what


BIN = {ast.Add: operator.add, ast.Sub: operator.sub, ast.Mult: operator.mul, ast.FloorDiv: operator.floordiv, ast.Mod: operator.mod,
       ast.Div: operator.truediv, ast.LShift: operator.lshift, ast.RShift: operator.rshift, ast.BitOr: operator.or_, ast.BitAnd: operator.and_,
       ast.BitXor: operator.xor, ast.Pow: operator.pow}
CMP = {ast.Eq: operator.eq, ast.NotEq: operator.ne, ast.Lt: operator.lt, ast.LtE: operator.le, ast.Gt: operator.gt, ast.GtE: operator.ge,
       ast.Is: lambda a, b: a is b or (a == b and isinstance(a, (Enum, bool, type(None)))), ast.IsNot: lambda a, b: not (a is b or (a == b and isinstance(a, (Enum, bool, type(None))))),
       ast.In: lambda a, b: a in b, ast.NotIn: lambda a, b: a not in b}
class LiveEnum:
    """enumerate(<list>): walks the list as it is at each step"""
    def __init__(self, lst, start=0):
        self.lst, self.start = lst, start

    def __iter__(self):
        i = 0
        while i < len(self.lst):
            yield (i + self.start, self.lst[i])
            i += 1


FUNCS = {'str': str, 'int': int, 'float': float, 'len': len, 'tuple': tuple, 'list': list, 'bool': bool, 'min': min, 'max': max, 'abs': abs,
         'sorted': sorted, 'any': any, 'all': all, 'range': range, 'zip': lambda *a: list(zip(*a)), 'enumerate': lambda x, start=0: LiveEnum(x, start) if isinstance(x, list) else list(enumerate(x, start)),
         'map': lambda f, *a: [f(*x) for x in zip(*a)], 'reversed': lambda x: list(reversed(x)), 'set': set, 'frozenset': frozenset, 'dict': dict,
         'isinstance': None}


def _next(x, *d):
    """next(<generator expression>, default): generator expressions are evaluated to lists, so only a fresh one can be asked for its first element"""
    if not isinstance(x, list):
        raise Unfoldable('next of %r' % (x,))
    if x:
        return x[0]
    if d:
        return d[0]
    raise Raised('StopIteration', None)


FUNCS['next'] = _next
FUNCS['divmod'] = divmod
FUNCS['round'] = round
FUNCS['sum'] = sum
STR_METHODS = {'split', 'join', 'format', 'strip', 'lstrip', 'rstrip', 'startswith', 'endswith', 'lower', 'upper', 'capitalize', 'partition', 'rpartition', 'replace', 'zfill'}


class Folder:
    def __init__(self, models=None, opaque_calls=(), steps=20000, methods=None):
        self.models = dict(models or {})        # dotted callee name -> python callable building a model value
        self.opaque_calls = set(opaque_calls)   # dotted names / bare names whose call yields Opaque
        self.steps = steps
        self.calls = []                         # (name, args) of opaque calls, in order
        self.methods = dict(methods or {})      # name -> FunctionDef: `self.<name>(...)` is folded through (depth <= 6)
        self.depth = 0
        self.pick = 'lo'                        # how an AbsIdx is made concrete
        self.capture_returns = False            # stop at the first return statement reached (Captured)
        self.enum_tables = {}                   # enumeration class name -> member names (in definition order); validates enums.X['K']
        self.enum_values = {}                   # enumeration class name -> {member name: value}: gives members a .value and makes Cls(value) / Cls[name] total
        self.module = None                      # ast.Module: free names resolve to its functions, Enum classes and (folded) constants
        self.ext_refs = False                   # <module alias>.<Name>[.<name>] of a module that is not a local value is an ExtRef; calling it gives Built
        self._globals = {}
        self._resolving = set()

    def global_name(self, name):
        """the value a module-level name has after import: a function, an enumeration class, or the folded right-hand side of its single
        assignment (`A, B = _build()` included); Unfoldable if it is not defined exactly once by such a statement"""
        if name in self._globals:
            return self._globals[name]
        if self.module is None or name in self._resolving:
            raise Unfoldable('free name %s' % name)
        defs = []
        for st in self.module.body:
            if isinstance(st, (ast.FunctionDef, ast.ClassDef)) and st.name == name:
                defs.append(st)
            elif isinstance(st, ast.Assign) and any(isinstance(x, ast.Name) and x.id == name for t in st.targets for x in ast.walk(t)):
                defs.append(st)
            elif isinstance(st, (ast.AugAssign, ast.AnnAssign)) and isinstance(st.target, ast.Name) and st.target.id == name:
                raise Unfoldable('module name %s is augmented/annotated' % name)
        if len(defs) != 1:
            raise Unfoldable('free name %s' % name)
        d = defs[0]
        if isinstance(d, ast.FunctionDef):
            for dec in d.decorator_list:
                dn_ = dotted(dec.func if isinstance(dec, ast.Call) else dec) or ''
                if dn_.split('.')[-1] not in ('lru_cache', 'cache', 'wraps'):
                    raise Unfoldable('decorated function %s' % name)          # a memoising decorator does not change what a pure function returns
            v = d
        elif isinstance(d, ast.ClassDef):
            bases = {dotted(b) for b in d.bases}
            if not bases & {'enum.Enum', 'Enum', 'OrderedEnum', 'enum.IntEnum', 'IntEnum'}:
                v = ClassRef(name)               # only good for isinstance tests against the models
            else:
                v = EnumClass(name)
        else:
            self._resolving.add(name)
            try:
                genv = {}
                depth, self.depth = self.depth, self.depth + 1          # a return captured at depth 0 is not wanted here
                try:
                    val = self.ev(d.value, genv)
                finally:
                    self.depth = depth
                for t in d.targets:
                    self.bind(t, val, genv)
            finally:
                self._resolving.discard(name)
            for k, x in genv.items():
                self._globals[k] = x
            v = genv[name]
        self._globals[name] = v
        return v

    @staticmethod
    def new_object(cls, bases=()):
        """a model instance of the class: fields are set by folding its methods; properties (getter / setter) and methods come from the class
        body (own definitions first, then the given base classes)"""
        props, meths = {}, {}
        for c in list(bases)[::-1] + [cls]:
            for f in c.body:
                if not isinstance(f, ast.FunctionDef):
                    continue
                decs = [dotted(d) or '' for d in f.decorator_list]
                if 'property' in decs:
                    props[f.name] = (f, props.get(f.name, (None, None))[1])
                elif any(d.endswith('.setter') for d in decs):
                    props[f.name] = (props.get(f.name, (None, None))[0], f)
                elif not decs:
                    meths[f.name] = f
        return {'__attrs__': (), '__props__': props, '__methods__': meths, '__class__': cls.name}

    def call_function(self, fn, args, kw):
        a = fn.args
        if a.vararg or a.kwarg or a.kwonlyargs:
            raise Unfoldable('signature of %s' % fn.name)
        ps = [x.arg for x in a.posonlyargs + a.args]
        if len(args) > len(ps):
            raise Raised('TypeError', fn)
        env = dict(zip(ps, args))
        defaults = dict(zip(reversed(ps), reversed(a.defaults)))
        for k, v in kw.items():
            if k not in ps:
                raise Raised('TypeError', fn)
            env[k] = v
        for p_ in ps:
            if p_ not in env:
                if p_ not in defaults:
                    raise Raised('TypeError', fn)
                env[p_] = self.ev(defaults[p_], {})
        if self.depth > 6:
            raise Unfoldable('call depth')
        self.depth += 1
        try:
            r = self.run(fn.body, env)
        finally:
            self.depth -= 1
        return r[1] if r[0] == 'return' else None

    def items_of(self, v):
        """the elements iterating over v yields"""
        if isinstance(v, EnumClass):
            if v.name not in self.enum_tables:
                raise Unfoldable('members of enums.%s' % v.name)
            return [Enum(v.name, m_) for m_ in self.enum_tables[v.name]]
        if isinstance(v, (Opaque, AbsNum, SymInt)):
            raise Unfoldable('iteration over an abstract value')
        if isinstance(v, dict):
            return [k for k in v if k != '__attrs__']
        if isinstance(v, LiveEnum):
            return v
        try:
            return list(v)
        except TypeError:
            raise Raised('TypeError', None)

    def live_items(self, v, node):
        """iteration over a mutable container sees the container as it is at each step: a list is walked by position against its
        current length (an element removed during the walk makes the walk skip its successor), a mapping that changes size during
        the walk raises RuntimeError - as in Python"""
        if isinstance(v, list):
            i = 0
            while i < len(v):
                yield v[i]
                i += 1
        else:
            keys = [k for k in v if k != '__attrs__']
            n = len(v)
            for k in keys:
                yield k
                if len(v) != n:
                    raise Raised('RuntimeError', node)

    def conc(self, v):
        if isinstance(v, AbsIdx):
            return 0 if self.pick == 'lo' else v.n - 1
        return v

    def call_method(self, fn, selfv, args, kw):
        a = fn.args
        names = [x.arg for x in a.posonlyargs + a.args]
        env = {names[0]: selfv} if names else {}
        ps = names[1:]
        defaults = dict(zip(reversed(ps), reversed(a.defaults)))
        for p_, v in zip(ps, args):
            env[p_] = v
        for k, v in kw.items():
            env[k] = v
        for p_ in ps:
            if p_ not in env:
                if p_ not in defaults:
                    raise Unfoldable('missing argument %s' % p_)
                env[p_] = self.ev(defaults[p_], {})
        if self.depth > 6:
            raise Unfoldable('method depth')
        self.depth += 1
        try:
            r = self.run(fn.body, env)
        finally:
            self.depth -= 1
        return r[1] if r[0] == 'return' else None

    def tick(self):
        self.steps -= 1
        if self.steps < 0:
            raise Unfoldable('step bound')

    # ---- expressions
    def ev(self, e, env):
        self.tick()
        if isinstance(e, ast.Constant):
            return e.value
        em = enum_member(e)
        if em and not (isinstance(e.value, ast.Name) and e.value.id in env):
            return Enum(em[0], em[1])
        if isinstance(e, ast.Name):
            if e.id in env:
                return env[e.id]
            if e.id in ('True', 'False', 'None'):
                return {'True': True, 'False': False, 'None': None}[e.id]
            if e.id in TYPES:
                return TYPES[e.id]
            return self.global_name(e.id)
        if isinstance(e, (ast.Tuple, ast.List)):
            vs = [self.ev(x, env) for x in e.elts]
            return tuple(vs) if isinstance(e, ast.Tuple) else vs
        if isinstance(e, ast.Set):
            return set(self.ev(x, env) for x in e.elts)
        if isinstance(e, ast.Dict):
            return {self.ev(k, env): self.ev(v, env) for k, v in zip(e.keys, e.values)}
        if isinstance(e, ast.BinOp) and type(e.op) in BIN:
            a_, b_ = self.conc(self.ev(e.left, env)), self.conc(self.ev(e.right, env))
            if isinstance(a_, (SymInt, AbsNum)) or isinstance(b_, (SymInt, AbsNum)):
                return AbsNum()
            try:
                return BIN[type(e.op)](a_, b_)
            except TypeError:
                raise Unfoldable('operands of %s' % type(e.op).__name__)
        if isinstance(e, ast.UnaryOp):
            v = self.ev(e.operand, env)
            if isinstance(e.op, ast.Not):
                return not v
            if isinstance(e.op, ast.USub):
                return -v
            if isinstance(e.op, ast.UAdd):
                return +v
            if isinstance(e.op, ast.Invert):
                return ~v
        if isinstance(e, ast.BoolOp):
            v = None
            for x in e.values:
                v = self.ev(x, env)
                if isinstance(e.op, ast.And) and not v:
                    return v
                if isinstance(e.op, ast.Or) and v:
                    return v
            return v
        if isinstance(e, ast.Compare):
            left = self.ev(e.left, env)
            for op, c in zip(e.ops, e.comparators):
                right = self.ev(c, env)
                if isinstance(left, MemberProbe) and isinstance(op, (ast.In, ast.NotIn)) and len(e.ops) == 1 and isinstance(right, (list, tuple, set, frozenset, dict)):
                    raise ProbeHit(right, isinstance(op, ast.NotIn), e)
                if isinstance(left, MemberProbe) or isinstance(right, MemberProbe):
                    raise Unfoldable('the probed value is compared other than by membership')
                if isinstance(left, Opaque) or isinstance(right, Opaque):
                    raise Unfoldable('comparison with an opaque value')
                if isinstance(left, SymInt) and right == 0 and type(op) in (ast.Lt, ast.LtE, ast.Gt, ast.GtE, ast.Eq, ast.NotEq):
                    if not left.cmp0(CMP[type(op)]):
                        return False
                    left = right
                    continue
                if isinstance(left, (SymInt, AbsNum, AbsStr)) or isinstance(right, (SymInt, AbsNum, AbsStr)):
                    raise Unfoldable('comparison of abstract values')
                if not CMP[type(op)](left, right):
                    return False
                left = right
            return True
        if isinstance(e, ast.IfExp):
            return self.ev(e.body, env) if self.ev(e.test, env) else self.ev(e.orelse, env)
        if isinstance(e, ast.Subscript):
            b = self.ev(e.value, env)
            if isinstance(e.slice, ast.Slice):
                lo = self.conc(self.ev(e.slice.lower, env)) if e.slice.lower else None
                hi = self.conc(self.ev(e.slice.upper, env)) if e.slice.upper else None
                st = self.conc(self.ev(e.slice.step, env)) if e.slice.step else None
                if any(isinstance(x_, (AbsNum, SymInt)) for x_ in (lo, hi, st)):
                    raise Unfoldable('slice with an unknown bound')
                return b[lo:hi:st]
            if isinstance(b, EnumClass):
                k_ = self.ev(e.slice, env)
                if isinstance(k_, (list, dict, set)):
                    raise Raised('TypeError', e)         # unhashable key
                if b.name in self.enum_tables:
                    if isinstance(k_, str) and k_ in self.enum_tables[b.name]:
                        return Enum(b.name, k_)
                    raise Raised('KeyError', e)
                if isinstance(k_, str):
                    return Enum(b.name, k_)
                raise Unfoldable('enumeration lookup by a non-string')
            k2_ = self.conc(self.ev(e.slice, env))
            if isinstance(b, (dict, list, tuple, str, bytes)):
                try:
                    return b[k2_]
                except (KeyError, IndexError, TypeError) as ex:
                    raise Raised(type(ex).__name__, e)       # TypeError: unhashable key / non-integer index - what the code would raise
            try:
                return b[k2_]
            except (KeyError, IndexError) as ex:
                raise Raised(type(ex).__name__, e)
        if isinstance(e, ast.Attribute):
            if isinstance(e.value, ast.Name) and e.value.id == 'enums' and 'enums' not in env and e.attr[:1].isupper() and not e.attr.isupper():
                return EnumClass(e.attr)
            if self.ext_refs:
                dn_ = dotted(e)
                if dn_ and dn_.split('.')[0] not in env and dn_.split('.')[0] not in ('self', 'cls', 'enums'):
                    root_ = dn_.split('.')[0]
                    is_global_ = False
                    if self.module is not None:
                        is_global_ = any((isinstance(st_, (ast.FunctionDef, ast.ClassDef)) and st_.name == root_) or
                                         (isinstance(st_, ast.Assign) and any(isinstance(x_, ast.Name) and x_.id == root_ for t_ in st_.targets for x_ in ast.walk(t_)))
                                         for st_ in self.module.body)
                    if not is_global_:
                        return ExtRef(dn_)
            b = self.ev(e.value, env)
            if isinstance(b, ExtRef):
                return ExtRef(b.name + '.' + e.attr)
            if isinstance(b, EnumClass) and e.attr.isupper():
                if b.name in self.enum_tables and e.attr not in self.enum_tables[b.name]:
                    raise Raised('AttributeError', e)
                return Enum(b.name, e.attr)
            if isinstance(b, (EnumClass, ClassRef)) and e.attr in ('__name__', '__qualname__'):
                return b.name
            if isinstance(b, EnumClass) and e.attr == '__members__':
                if b.name not in self.enum_tables:
                    raise Unfoldable('members of enums.%s' % b.name)
                return {n_: Enum(b.name, n_) for n_ in self.enum_tables[b.name]}
            if isinstance(b, tuple) and hasattr(type(b), '_fields') and e.attr in type(b)._fields:
                return getattr(b, e.attr)
            if isinstance(b, Enum) and e.attr == 'value':
                if b.cls in self.enum_values and b.name in self.enum_values[b.cls]:
                    return self.enum_values[b.cls][b.name]
                raise Unfoldable('value of %r' % (b,))
            if isinstance(b, (Version, Enum)) and hasattr(b, e.attr) and not e.attr.startswith('_'):
                return getattr(b, e.attr)
            if isinstance(b, dict) and e.attr in b.get('__props__', ()):
                getter = b['__props__'][e.attr][0]
                if getter is None:
                    raise Raised('AttributeError', e)
                return self.call_method(getter, b, [], {})
            if isinstance(b, dict) and e.attr in b.get('__attrs__', ()):
                return b[e.attr]
            if isinstance(b, dict) and e.attr in b.get('__methods__', ()):
                return BoundMethod(b['__methods__'][e.attr], b)          # a method taken as a value (stored in a table, returned as a builder)
            if isinstance(b, dict) and '__methods__' in b:
                raise Raised('AttributeError', e)
            raise Unfoldable('attribute %s of %r' % (e.attr, b))
        if isinstance(e, (ast.ListComp, ast.GeneratorExp, ast.SetComp)):
            out = []
            self.comp(e.generators, 0, dict(env), lambda env2: out.append(self.ev(e.elt, env2)))
            return set(out) if isinstance(e, ast.SetComp) else out
        if isinstance(e, ast.DictComp):
            outd = {}

            def emit_(env2):
                k_ = self.ev(e.key, env2)
                try:
                    outd[k_] = self.ev(e.value, env2)
                except TypeError:
                    raise Raised('TypeError', e)          # unhashable key
            self.comp(e.generators, 0, dict(env), emit_)
            return outd
        if isinstance(e, ast.JoinedStr):
            parts = []
            for v in e.values:
                parts.append(str(self.ev(v.value, env)) if isinstance(v, ast.FormattedValue) else v.value)
            return ''.join(parts)
        if isinstance(e, ast.Call):
            return self.call(e, env)
        raise Unfoldable('expression %s' % type(e).__name__)

    def comp(self, gens, i, env, emit):
        if i == len(gens):
            emit(env)
            return
        g = gens[i]
        for v in self.items_of(self.ev(g.iter, env)):
            self.tick()
            e2 = dict(env)
            self.bind(g.target, v, e2)
            if all(self.ev(c, e2) for c in g.ifs):
                self.comp(gens, i + 1, e2, emit)

    def call_value(self, fv, args, kw, e):
        """call of a callable VALUE (a table entry, a partial, a bound method)"""
        import functools as _ft
        if isinstance(fv, _ft.partial):
            return self.call_value(fv.func, list(fv.args) + list(args), dict(fv.keywords, **kw), e)
        if isinstance(fv, ExtRef):
            return Built(fv.name, args, kw)
        if isinstance(fv, BoundMethod):
            return self.call_method(fv.fn, fv.selfv, args, kw)
        if isinstance(fv, ast.FunctionDef):
            return self.call_function(fv, args, kw)
        if isinstance(fv, ast.Lambda):
            env2 = dict(zip([a.arg for a in fv.args.args], args))
            env2.update(kw)
            return self.ev(fv.body, env2)
        raise Unfoldable('call of a value %r' % (fv,))

    def call(self, e, env):
        name = dotted(e.func)
        if name in ('getattr', 'setattr', 'hasattr') and name not in env and not e.keywords and not any(isinstance(a, ast.Starred) for a in e.args) \
                and len(e.args) in ((2, 3) if name == 'getattr' else ((3,) if name == 'setattr' else (2,))):
            o_ = self.ev(e.args[0], env)
            if isinstance(o_, dict) and '__attrs__' in o_:
                n_ = self.ev(e.args[1], env)
                if not isinstance(n_, str):
                    raise Unfoldable('%s with a computed name that is not a string' % name)
                props_ = o_.get('__props__', {})
                if name == 'setattr':
                    v_ = self.ev(e.args[2], env)
                    if n_ in props_:
                        if props_[n_][1] is None:
                            raise Raised('AttributeError', e)
                        self.call_method(props_[n_][1], o_, [v_], {})
                        return None
                    o_[n_] = v_
                    if n_ not in o_['__attrs__']:
                        o_['__attrs__'] = tuple(o_['__attrs__']) + (n_,)
                    return None
                has_ = n_ in o_['__attrs__'] or n_ in props_ or n_ in o_.get('__methods__', {})
                if name == 'hasattr':
                    return has_
                if n_ in props_ and props_[n_][0] is not None:
                    return self.call_method(props_[n_][0], o_, [], {})
                if n_ in o_['__attrs__']:
                    return o_[n_]
                if n_ in o_.get('__methods__', {}):
                    return BoundMethod(o_['__methods__'][n_], o_)
                if len(e.args) == 3:
                    return self.ev(e.args[2], env)
                raise Raised('AttributeError', e)
        if self.ext_refs and not any(isinstance(a, ast.Starred) for a in e.args):
            if name in ('functools.partial', 'partial') and e.args:
                import functools as _ft
                vs_ = [self.ev(a, env) for a in e.args]
                return _PartialOf(vs_[0], vs_[1:], {k.arg: self.ev(k.value, env) for k in e.keywords if k.arg})
            if name == 'getattr' and len(e.args) in (2, 3) and 'getattr' not in env:
                o_ = self.ev(e.args[0], env)
                n_ = self.ev(e.args[1], env)
                if isinstance(o_, dict) and isinstance(n_, str) and n_ in o_.get('__methods__', {}):
                    return BoundMethod(o_['__methods__'][n_], o_)
            fvv_ = None
            if isinstance(e.func, ast.Name) and e.func.id in env:
                fvv_ = env[e.func.id]
            elif isinstance(e.func, (ast.Attribute, ast.Subscript, ast.Call)) and not (isinstance(e.func, ast.Attribute) and isinstance(e.func.value, ast.Name) and e.func.value.id in ('self',)):
                try:
                    fvv_ = self.ev(e.func, env)
                except (Unfoldable, Raised):
                    fvv_ = None
            if isinstance(fvv_, (ExtRef, BoundMethod, _PartialOf)):
                args_ = [self.ev(a, env) for a in e.args]
                kw_ = {k.arg: self.ev(k.value, env) for k in e.keywords if k.arg}
                if isinstance(fvv_, _PartialOf):
                    return self.call_value(fvv_.func, list(fvv_.args) + args_, dict(fvv_.kw, **kw_), e)
                return self.call_value(fvv_, args_, kw_, e)
        if any(isinstance(a, ast.Starred) for a in e.args) and name not in self.opaque_calls:
            args = []
            for a in e.args:
                if isinstance(a, ast.Starred):
                    args.extend(self.ev(a.value, env))
                else:
                    args.append(self.ev(a, env))
        elif name in self.opaque_calls or (isinstance(e.func, ast.Name) and e.func.id in self.opaque_calls):
            self.calls.append((name, e))
            return Opaque(name)
        else:
            args = [self.ev(a, env) for a in e.args]
        kw = {k.arg: self.ev(k.value, env) for k in e.keywords if k.arg}
        if name in self.models:
            return self.models[name](*args, **kw)
        if isinstance(e.func, ast.Attribute) and isinstance(e.func.value, ast.Name) and e.func.value.id == 'self' and e.func.attr in self.methods and 'self' in env:
            fm_ = self.methods[e.func.attr]
            decs_ = [dotted(d_) or '' for d_ in fm_.decorator_list]
            if 'staticmethod' in decs_:
                return self.call_function(fm_, args, kw)
            return self.call_method(fm_, env['self'], args, kw)
        if name and name.split('.')[-1] in self.models and '.' in name and name.split('.')[0] not in env:
            # <module>.<function> for a modelled function (the receiver is not a local value)
            return self.models[name.split('.')[-1]](*args, **kw)
        if not isinstance(e.func, ast.Name) or e.func.id not in FUNCS:
            try:
                fv_ = self.ev(e.func, env) if isinstance(e.func, (ast.Name, ast.Attribute)) and not (isinstance(e.func, ast.Attribute) and isinstance(e.func.value, ast.Name) and e.func.value.id not in env and e.func.value.id != 'enums') else None
            except (Unfoldable, Raised):
                fv_ = None
            if isinstance(fv_, EnumClass) and len(args) == 1 and not kw:
                # Cls(value): the member with that value
                if fv_.name not in self.enum_values:
                    raise Unfoldable('members of enums.%s by value' % fv_.name)
                for nm_, val_ in self.enum_values[fv_.name].items():
                    if val_ == args[0] and type(val_) is type(args[0]):
                        return Enum(fv_.name, nm_)
                raise Raised('ValueError', e)
        if isinstance(e.func, ast.Name) and (e.func.id in env or e.func.id not in FUNCS):
            try:
                fv = env[e.func.id] if e.func.id in env else self.global_name(e.func.id)
            except Unfoldable:
                fv = None
            if isinstance(fv, ast.FunctionDef):
                return self.call_function(fv, args, kw)
        if isinstance(e.func, ast.Name) and e.func.id in FUNCS and e.func.id not in env and not (e.func.id == 'len' and len(args) == 1 and isinstance(args[0], dict) and '__methods__' in args[0]):
            if e.func.id == 'isinstance':
                v_, c_ = args
                cs_ = c_ if isinstance(c_, tuple) else (c_,)
                res_ = False
                for k_ in cs_:
                    if isinstance(k_, EnumClass):
                        res_ = res_ or (isinstance(v_, Enum) and v_.cls == k_.name)
                    elif isinstance(k_, ClassRef):
                        if isinstance(v_, Version):
                            res_ = res_ or k_.name == 'ProtocolVersion'
                        elif isinstance(v_, dict) and '__class__' in v_:
                            res_ = res_ or v_['__class__'] == k_.name
                        elif isinstance(v_, (Opaque, AbsNum, SymInt, AbsStr)):
                            raise Unfoldable('isinstance of an abstract value')
                        else:
                            res_ = res_ or False
                    elif isinstance(k_, type):
                        if isinstance(v_, (Opaque, AbsNum, SymInt, AbsStr)):
                            raise Unfoldable('isinstance of an abstract value')
                        res_ = res_ or (isinstance(v_, k_) and not isinstance(v_, (Enum, Version, EnumClass)))
                    else:
                        raise Unfoldable('isinstance against %r' % (k_,))
                return res_
            if any(isinstance(x, (AbsNum,)) for x in args) and e.func.id in ('int', 'abs', 'min', 'max'):
                return AbsNum()
            if e.func.id in ('tuple', 'list', 'set', 'frozenset', 'sorted', 'enumerate', 'reversed', 'len') and any(isinstance(x, EnumClass) for x in args):
                args = [self.items_of(x) if isinstance(x, EnumClass) else x for x in args]         # an enumeration class iterates over its members
            try:
                return FUNCS[e.func.id](*args, **kw)
            except (ValueError, TypeError) as ex:
                raise Raised(type(ex).__name__, e)
        if isinstance(e.func, ast.Name) and e.func.id == 'len' and e.func.id not in env and len(args) == 1 and isinstance(args[0], dict) and '__methods__' in args[0]:
            if '__len__' not in args[0]['__methods__']:
                raise Raised('TypeError', e)
            return self.call_method(args[0]['__methods__']['__len__'], args[0], [], {})
        if isinstance(e.func, ast.Attribute):
            recv = self.ev(e.func.value, env)
            m = e.func.attr
            if isinstance(recv, dict) and m in recv.get('__methods__', ()):
                return self.call_method(recv['__methods__'][m], recv, args, kw)
            if isinstance(recv, (SymInt, AbsStr)) and hasattr(recv, 'm_' + m):
                return getattr(recv, 'm_' + m)(*args, **kw)
            if isinstance(recv, str) and m == 'format' and any(isinstance(x, (SymInt, AbsNum, AbsStr)) for x in list(args) + list(kw.values())):
                return abstract_format(recv, args, kw)
            if isinstance(recv, (str, bytes)) and m == 'join' and len(args) == 1 and isinstance(args[0], (list, tuple)) and any(isinstance(x_, AbsStr) for x_ in args[0]):
                # joining abstract pieces: the length is the sum (plus separators), exact when every piece is
                parts_ = list(args[0])
                r_ = (AbsBytes if isinstance(recv, bytes) else AbsStr)(sum(len(x_) for x_ in parts_) + len(recv) * max(len(parts_) - 1, 0))
                r_.exact = all(getattr(x_, 'exact', True) for x_ in parts_)
                return r_
            if isinstance(recv, bytes) and m == 'join' and len(args) == 1 and isinstance(args[0], (list, tuple)) and all(isinstance(x_, (bytes, bytearray)) for x_ in args[0]):
                return recv.join(args[0])
            if isinstance(recv, str) and m in STR_METHODS:
                return getattr(recv, m)(*args, **kw)
            if isinstance(recv, (bytes, bytearray)) and m in ('decode', 'hex') and all(isinstance(a_, str) for a_ in list(args) + list(kw.values())):
                try:
                    return getattr(bytes(recv), m)(*args, **kw)
                except UnicodeDecodeError:
                    raise Raised('UnicodeDecodeError', e)
            if isinstance(recv, str) and m == 'encode' and all(isinstance(a_, str) for a_ in list(args) + list(kw.values())):
                try:
                    return recv.encode(*args, **kw)
                except UnicodeEncodeError:
                    raise Raised('UnicodeEncodeError', e)
            if isinstance(recv, dict) and m in ('get', 'keys', 'values', 'items'):
                try:
                    r = getattr(recv, m)(*args)
                except TypeError:
                    raise Raised('TypeError', e)
                if m == 'get':
                    return r
                r = list(r)
                if '__attrs__' in recv:
                    r = [x for x in r if (x[0] if m == 'items' else x) != '__attrs__'] if m != 'values' else r
                return r
            if isinstance(recv, (list, tuple)) and m in ('index', 'count'):
                return getattr(recv, m)(*args)
            if isinstance(recv, list) and m in ('append', 'extend', 'insert'):
                getattr(recv, m)(*args)
                return None
            if isinstance(recv, Opaque):
                self.calls.append(('%s.%s' % (recv.what, m), e))
                return Opaque('%s.%s' % (recv.what, m))
            if isinstance(recv, (set, frozenset)) and m in ('pop', 'add', 'discard', 'remove', 'issubset', 'issuperset', 'union', 'intersection', 'difference', 'copy', 'update'):
                try:
                    return getattr(recv, m)(*args)
                except (KeyError, TypeError) as ex:
                    raise Raised(type(ex).__name__, e)
            if isinstance(recv, dict) and '__attrs__' not in recv and m in ('pop', 'setdefault', 'update', 'copy'):
                try:
                    return getattr(recv, m)(*args)
                except (KeyError, TypeError) as ex:
                    raise Raised(type(ex).__name__, e)
            if isinstance(recv, list) and m in ('pop', 'remove', 'sort', 'reverse', 'copy'):
                try:
                    return getattr(recv, m)(*args)
                except (IndexError, ValueError, TypeError) as ex:
                    raise Raised(type(ex).__name__, e)
            if m in ('items', 'keys', 'values', 'get') and not isinstance(recv, dict):
                if isinstance(recv, (str, int, float, list, tuple, type(None), bool)):
                    raise Raised('AttributeError', e)       # mapping method on a non-mapping value
        raise Unfoldable('call of %s' % (name or type(e.func).__name__))

    HIER = {'KeyError': ('LookupError', 'Exception'), 'IndexError': ('LookupError', 'Exception'), 'ValueError': ('Exception',), 'TypeError': ('Exception',),
            'AttributeError': ('Exception',), 'NotImplementedError': ('RuntimeError', 'Exception'), 'struct.error': ('Exception',)}

    def handler_for(self, trystmt, ex, env):
        nm = (ex.name or '').split('.')[-1]
        sup = set(self.HIER.get(ex.name, self.HIER.get(nm, ('Exception',)))) | {nm, 'BaseException'}
        for h in trystmt.handlers:
            if h.type is None:
                return h
            ts = h.type.elts if isinstance(h.type, ast.Tuple) else [h.type]
            for t in ts:
                tn = (dotted(t) or '').split('.')[-1]
                if tn in sup:
                    return h
        return None

    # ---- statements
    def bind(self, t, v, env):
        if isinstance(t, ast.Name):
            env[t.id] = v
        elif isinstance(t, (ast.Tuple, ast.List)):
            vs = list(v)
            if len(vs) != len(t.elts):
                raise Raised('ValueError', t)
            for x, y in zip(t.elts, vs):
                self.bind(x, y, env)
        elif isinstance(t, ast.Subscript) and isinstance(t.slice, ast.Slice):
            b = self.ev(t.value, env)
            if not isinstance(b, list):
                raise Unfoldable('slice store on %r' % (b,))
            lo = self.conc(self.ev(t.slice.lower, env)) if t.slice.lower else None
            hi = self.conc(self.ev(t.slice.upper, env)) if t.slice.upper else None
            st = self.conc(self.ev(t.slice.step, env)) if t.slice.step else None
            if any(isinstance(x_, (AbsNum, SymInt)) for x_ in (lo, hi, st)):
                raise Unfoldable('slice with an unknown bound')
            try:
                b[lo:hi:st] = self.items_of(v)
            except (TypeError, ValueError) as ex:
                raise Raised(type(ex).__name__, t)
        elif isinstance(t, ast.Subscript) and not isinstance(t.slice, ast.Slice):
            b = self.ev(t.value, env)
            k_ = self.ev(t.slice, env)
            if isinstance(b, (dict, list)):
                try:
                    b[k_] = v
                except (TypeError, IndexError) as ex:
                    raise Raised(type(ex).__name__, t)
            else:
                raise Unfoldable('item store on %r' % (b,))
        elif isinstance(t, ast.Attribute):
            b = self.ev(t.value, env)
            if isinstance(b, dict) and t.attr in b.get('__props__', ()):
                setter = b['__props__'][t.attr][1]
                if setter is None:
                    raise Raised('AttributeError', t)
                self.call_method(setter, b, [v], {})
            elif isinstance(b, dict) and '__attrs__' in b:
                b[t.attr] = v
                b['__attrs__'] = tuple(b['__attrs__']) + ((t.attr,) if t.attr not in b['__attrs__'] else ())
            else:
                raise Unfoldable('attribute store on %r' % (b,))
        else:
            raise Unfoldable('assignment target %s' % type(t).__name__)

    def run(self, stmts, env):
        """-> ('return', value) | ('fall', None); raises Raised for an explicit / implied exception"""
        for s in stmts:
            self.tick()
            if isinstance(s, ast.Expr):
                if isinstance(s.value, ast.Constant):
                    continue
                self.ev(s.value, env)
            elif isinstance(s, ast.Assign):
                v = self.ev(s.value, env)
                for t in s.targets:
                    self.bind(t, v, env)
            elif isinstance(s, ast.AugAssign) and isinstance(s.target, ast.Name) and type(s.op) in BIN:
                if s.target.id not in env:
                    raise Unfoldable('free name %s' % s.target.id)
                a_, b_ = env[s.target.id], self.ev(s.value, env)
                env[s.target.id] = AbsNum() if isinstance(a_, (SymInt, AbsNum)) or isinstance(b_, (SymInt, AbsNum)) else BIN[type(s.op)](a_, b_)
            elif isinstance(s, ast.AugAssign) and isinstance(s.target, (ast.Attribute, ast.Subscript)) and type(s.op) in BIN:
                load = copy.copy(s.target)
                load.ctx = ast.Load()
                a_, b_ = self.ev(load, env), self.ev(s.value, env)
                if isinstance(a_, (SymInt, AbsNum)) or isinstance(b_, (SymInt, AbsNum)):
                    self.bind(s.target, AbsNum(), env)
                else:
                    try:
                        self.bind(s.target, BIN[type(s.op)](a_, b_), env)
                    except TypeError:
                        raise Unfoldable('operands of augmented assignment')
            elif isinstance(s, ast.If):
                r = self.run(s.body if self.ev(s.test, env) else s.orelse, env)
                if r[0] != 'fall':
                    return r
            elif isinstance(s, ast.For):
                broke = False
                itv = self.ev(s.iter, env)
                for v in (self.live_items(itv, s) if isinstance(itv, (list, dict)) else self.items_of(itv)):
                    self.bind(s.target, v, env)
                    r = self.run(s.body, env)
                    if r[0] == 'break':
                        broke = True
                        break
                    if r[0] == 'return':
                        return r
                if not broke and s.orelse:
                    r = self.run(s.orelse, env)
                    if r[0] != 'fall':
                        return r
            elif isinstance(s, ast.While):
                while self.ev(s.test, env):
                    self.tick()
                    r = self.run(s.body, env)
                    if r[0] == 'break':
                        break
                    if r[0] == 'return':
                        return r
                else:
                    if s.orelse:
                        r = self.run(s.orelse, env)
                        if r[0] != 'fall':
                            return r
            elif isinstance(s, ast.Delete):
                for t in s.targets:
                    if isinstance(t, ast.Name) and t.id in env:
                        del env[t.id]
                    elif isinstance(t, ast.Subscript):
                        b = self.ev(t.value, env)
                        if not isinstance(b, (dict, list)) or (isinstance(b, dict) and '__attrs__' in b):
                            raise Unfoldable('item deletion on %r' % (b,))
                        if isinstance(t.slice, ast.Slice):
                            lo = self.conc(self.ev(t.slice.lower, env)) if t.slice.lower else None
                            hi = self.conc(self.ev(t.slice.upper, env)) if t.slice.upper else None
                            st = self.conc(self.ev(t.slice.step, env)) if t.slice.step else None
                            del b[lo:hi:st]
                        else:
                            try:
                                del b[self.conc(self.ev(t.slice, env))]
                            except (KeyError, IndexError, TypeError) as ex:
                                raise Raised(type(ex).__name__, t)
                    else:
                        raise Unfoldable('deletion target %s' % type(t).__name__)
            elif isinstance(s, ast.Return):
                if self.capture_returns and self.depth == 0:
                    raise Captured(s, dict(env))
                return ('return', self.ev(s.value, env) if s.value is not None else None)
            elif isinstance(s, ast.Raise):
                nm = None
                if isinstance(s.exc, ast.Call):
                    nm = dotted(s.exc.func)
                    # the arguments of the exception are evaluated first - and can raise themselves
                    for a_ in list(s.exc.args) + [k.value for k in s.exc.keywords]:
                        try:
                            self.ev(a_, env)
                        except Unfoldable:
                            pass
                elif s.exc is not None:
                    nm = dotted(s.exc)
                raise Raised(nm or 're-raise', s)
            elif isinstance(s, ast.Break):
                return ('break', None)
            elif isinstance(s, ast.Continue):
                return ('continue', None)
            elif isinstance(s, ast.Pass):
                continue
            elif isinstance(s, (ast.FunctionDef, ast.ClassDef)):
                env[s.name] = s
            elif isinstance(s, ast.With):
                for it in s.items:
                    v = self.ev(it.context_expr, env)
                    if it.optional_vars is not None:
                        self.bind(it.optional_vars, v, env)
                r = self.run(s.body, env)
                if r[0] != 'fall':
                    return r
            elif isinstance(s, ast.Try):
                try:
                    r = self.run(s.body, env)
                    if r[0] == 'fall' and s.orelse:
                        r = self.run(s.orelse, env)
                except Raised as ex:
                    h = self.handler_for(s, ex, env)
                    if h is None:
                        if s.finalbody:
                            self.run(s.finalbody, env)
                        raise
                    if h.name:
                        env[h.name] = Opaque('exception %s' % ex.name)
                    r = self.run(h.body, env)
                if s.finalbody:
                    rf = self.run(s.finalbody, env)
                    if rf[0] != 'fall':
                        return rf
                if r[0] != 'fall':
                    return r
            else:
                raise Unfoldable('statement %s' % type(s).__name__)
        return ('fall', None)


# ---- length abstraction: integers known by the bit length of their magnitude and their sign, strings / byte strings known by
#      their length only.  Enough to fold the *size* of an encoding (BigInteger.write) for every bit length, whatever the spelling.
class SymInt:
    def __init__(self, bits, negative=False):
        self.bits, self.negative = bits, negative and bits > 0

    def __abs__(self):
        return SymInt(self.bits, False)

    def m_bit_length(self):
        return self.bits

    def m_to_bytes(self, length, byteorder='big', signed=False):
        return AbsBytes(length)

    def cmp0(self, op):
        """comparison with the constant 0"""
        sign = -1 if self.negative else (0 if self.bits == 0 else 1)
        return op(sign, 0)

    def __repr__(self):
        return 'SymInt(%s%d bits)' % ('-' if self.negative else '', self.bits)


class AbsNum:
    """an integer about which nothing is known"""
    def __repr__(self):
        return 'AbsNum'


class AbsIdx:
    """a position inside a string of length n (result of find/rfind when the character occurs): 0 <= i < n.  The folder replaces
    it by the smallest or the largest possible position (Folder.pick); a rule that depends on such a value folds twice and
    requires the same outcome."""
    def __init__(self, n):
        self.n = n

    def __repr__(self):
        return 'AbsIdx(<%d)' % self.n


class AbsStr:
    kind = 'str'
    exact = True

    def __init__(self, n, origin=None):
        self.n, self.origin = n, origin

    def __len__(self):
        return self.n

    def _mk(self, n):
        r = type(self)(n)
        r.exact = self.exact
        return r

    def __iter__(self):
        for _ in range(self.n):
            yield (AbsStr(1) if self.kind == 'str' else AbsNum())

    def __add__(self, o):
        if isinstance(o, (AbsStr, str, bytes)):
            return self._mk(self.n + len(o))
        return NotImplemented

    def __radd__(self, o):
        if isinstance(o, (str, bytes)):
            return self._mk(self.n + len(o))
        return NotImplemented

    def __getitem__(self, k):
        if isinstance(k, slice):
            return self._mk(len(range(*k.indices(self.n))))
        if isinstance(k, int):
            if not -self.n <= k < self.n:
                raise IndexError(k)
            return self._mk(1)
        raise Unfoldable('index of an abstract string')

    def m_replace(self, a, b, *rest):
        if len(a) != len(b):
            raise Unfoldable('length-changing replace')
        return self._mk(self.n)

    def m_rfind(self, *a):
        return AbsIdx(self.n) if self.n else -1

    def m_find(self, *a):
        return AbsIdx(self.n) if self.n else -1

    def m_encode(self, *a, **kw):
        r = AbsBytes(self.n)
        enc = (a[0] if a else kw.get('encoding', 'utf-8'))
        # a single-byte encoding gives exactly one byte per character (or raises); otherwise a character can take several bytes and
        # only a lower bound on the length is known
        r.exact = isinstance(enc, str) and enc.lower().replace('_', '-') in ('ascii', 'us-ascii', 'latin-1', 'latin1', 'iso-8859-1', 'iso8859-1', 'cp1252')
        return r

    def m_lstrip(self, chars=None):
        if self.origin and self.origin[0] == 'bin' and chars in ('0b', 'b0'):
            return AbsStr(self.origin[1])        # bin(n).lstrip('0b'): the binary digits ('' for 0)
        return self._inexact()

    def _inexact(self):
        r = self._mk(self.n)
        r.exact = False
        return r

    def m_strip(self, *a):
        return self._inexact()        # at most n characters remain

    def m_rstrip(self, *a):
        return self._inexact()

    def m_zfill(self, w):
        return self._mk(max(self.n, w))

    def m_rjust(self, w, *a):
        return self._mk(max(self.n, w))

    def __repr__(self):
        return '%s[%d]' % (type(self).__name__, self.n)


SINGLE_BYTE_CODECS = ('ascii', 'us-ascii', 'latin-1', 'latin1', 'iso-8859-1', 'iso8859-1', 'cp1252')


class AbsBytes(AbsStr):
    kind = 'bytes'

    def m_hex(self):
        return AbsStr(2 * self.n)

    def m_decode(self, *a, **kw):
        r = AbsStr(self.n)
        enc = (a[0] if a else kw.get('encoding', 'utf-8'))
        # one character per byte for a single-byte codec, and for at most one byte under any codec (or it raises); otherwise several
        # bytes can make one character and only an upper bound on the length is known
        r.exact = self.exact and (self.n <= 1 or (isinstance(enc, str) and enc.lower().replace('_', '-') in SINGLE_BYTE_CODECS))
        return r


class WinBytes:
    """A byte string known as a sequence of windows into named origins: ((origin, lo, hi), ...).  Slicing cuts windows, concatenation
    joins them (adjacent windows of one origin merge), the content is never looked at.  Enough to decide *which* bytes of its input a
    stream hands out and keeps, for every length and request size, whatever the representation of the stream."""
    kind = 'bytes'

    def __init__(self, segs=()):
        out = []
        for o, lo, hi in segs:
            if hi <= lo:
                continue
            if out and out[-1][0] == o and out[-1][2] == lo:
                out[-1] = (o, out[-1][1], hi)
            else:
                out.append((o, lo, hi))
        self.segs = tuple(out)

    @classmethod
    def of(cls, origin, n):
        return cls(((origin, 0, n),))

    def __len__(self):
        return sum(hi - lo for _, lo, hi in self.segs)

    def __bool__(self):
        return len(self) > 0

    def __eq__(self, o):
        if isinstance(o, (bytes, bytearray)) and len(o) == 0:
            return len(self) == 0
        return isinstance(o, WinBytes) and self.segs == o.segs

    def __ne__(self, o):
        return not self.__eq__(o)

    def __hash__(self):
        return hash(self.segs)

    def __add__(self, o):
        if isinstance(o, WinBytes):
            return WinBytes(self.segs + o.segs)
        if isinstance(o, (bytes, bytearray)) and len(o) == 0:
            return self
        raise Unfoldable('concatenation of a window with concrete bytes')

    def __radd__(self, o):
        if isinstance(o, (bytes, bytearray)) and len(o) == 0:
            return self
        raise Unfoldable('concatenation of concrete bytes with a window')

    def __getitem__(self, k):
        if not isinstance(k, slice):
            raise Unfoldable('single byte of a window')
        start, stop, step = k.indices(len(self))
        if step != 1:
            raise Unfoldable('stepped slice of a window')
        out = []
        pos = 0
        for o, lo, hi in self.segs:
            n = hi - lo
            a, b = max(start, pos), min(stop, pos + n)
            if a < b:
                out.append((o, lo + a - pos, lo + b - pos))
            pos += n
        return WinBytes(out)

    def __iter__(self):
        raise Unfoldable('iteration over a window')

    def __repr__(self):
        return 'Win[%s]' % ', '.join('%s[%d:%d]' % x for x in self.segs) if self.segs else "Win[]"


def length_models():
    """models for the Folder: builtins and library calls on length-abstract values"""
    import struct as _struct

    def fmt(template, *args):
        raise Unfoldable('format')

    def m_bin(x):
        if isinstance(x, SymInt):
            return AbsStr(max(x.bits, 1) + 2 + (1 if x.negative else 0), origin=('bin', x.bits))
        return bin(x)

    def m_len(x):
        return len(x)

    def m_int(x, *a):
        if isinstance(x, SymInt) and not a:
            return x
        if isinstance(x, AbsStr):
            return AbsNum()
        return int(x, *a)

    def m_pack(f, *vals):
        if all(isinstance(v, (int, bytes, float)) for v in vals):
            try:
                return _struct.pack(f, *vals)
            except _struct.error as ex:
                raise Raised('struct.error', None)
        return AbsBytes(_struct.calcsize(f))

    def m_unhex(x):
        return AbsBytes(len(x) // 2)

    def m_hexlify(x):
        return AbsBytes(2 * len(x))

    def m_bytes(x=b'', *a):
        if isinstance(x, (bytes, bytearray)) and not a:
            return bytes(x)
        if isinstance(x, AbsStr):
            return AbsBytes(len(x))
        if isinstance(x, int):
            return AbsBytes(x)
        return AbsBytes(len(bytes(x)))

    def m_unpack(f, data):
        if isinstance(data, (bytes, bytearray)):
            try:
                return _struct.unpack(f, data)
            except _struct.error:
                raise Raised('struct.error', None)
        # character / pad formats keep the bytes abstract; numbers become unknown numbers
        out = []
        for ch in f.lstrip('!<>=@'):
            out.append(AbsBytes(1) if ch in 'cs' else AbsNum())
        if _struct.calcsize(f) != len(data):
            raise Raised('struct.error', None)
        return tuple(out)

    return {'struct.unpack': m_unpack, 'unpack': m_unpack, 'bin': m_bin, 'struct.pack': m_pack, 'pack': m_pack, 'binascii.unhexlify': m_unhex, 'unhexlify': m_unhex,
            'binascii.hexlify': m_hexlify, 'hexlify': m_hexlify, 'bytes': m_bytes, 'bytearray': m_bytes, 'int': m_int,
            'bytes.fromhex': m_unhex, 'bytearray.fromhex': m_unhex}


def abstract_format(template, args, kwargs):
    """length of str.format output when every replacement field has a known width: {i:b} of a SymInt, {i:0{j}x} / {i:0Nx} of any
    integer that fits (the caller's obligation), plain literal text"""
    import string
    out = 0
    auto = 0
    for lit, field, spec, conv in string.Formatter().parse(template):
        out += len(lit)
        if field is None:
            continue
        if field == '':
            field = str(auto)
            auto += 1
        val = args[int(field)] if field.isdigit() else kwargs[field]
        spec = spec or ''
        # nested width {j}
        import re
        m = re.fullmatch(r'(0?)(\{(\d*)\}|\d*)([bxXd]?)', spec)
        if not m:
            raise Unfoldable('format spec %r' % spec)
        w = m.group(2)
        if w.startswith('{'):
            j = m.group(3)
            if j == '':
                j = str(auto)
                auto += 1
            w = args[int(j)]
        else:
            w = int(w) if w else 0
        kind = m.group(4)
        if isinstance(val, SymInt):
            if kind == 'b':
                n = max(val.bits, 1) + (1 if val.negative else 0)
            elif kind in ('x', 'X'):
                n = max((val.bits + 3) // 4, 1) + (1 if val.negative else 0)
            else:
                raise Unfoldable('decimal rendering of a symbolic integer')
            out += max(n, w)
        elif isinstance(val, AbsNum):
            if not w:
                raise Unfoldable('unbounded rendering of an unknown integer')
            out += w            # assumption recorded by the rule: the masked value fits its field
        elif isinstance(val, int) and not isinstance(val, bool):
            out += max(len(format(val, kind or 'd')), w)
        elif isinstance(val, (str, AbsStr)) and not kind:
            out += max(len(val), w)
        else:
            raise Unfoldable('format of %r' % (val,))
    return AbsStr(out)


def _names_read(node):
    return {n.id for n in ast.walk(node) if isinstance(n, ast.Name) and isinstance(n.ctx, ast.Load)}


def _touches(s, names):
    """does the simple statement s bind or mutate one of the names"""
    if isinstance(s, (ast.Assign, ast.AnnAssign, ast.AugAssign)):
        tgts = s.targets if isinstance(s, ast.Assign) else [s.target]
        for t in tgts:
            for n in ast.walk(t):
                if isinstance(n, ast.Name) and n.id in names:
                    return True
    if isinstance(s, ast.Expr) and isinstance(s.value, ast.Call) and isinstance(s.value.func, ast.Attribute) \
            and isinstance(s.value.func.value, ast.Name) and s.value.func.value.id in names:
        return True
    return False


def slice_names(fn, var, stop=('self',)):
    """names on which the value of var depends (assignments and in-place method calls), transitively"""
    names = {var}
    changed = True
    while changed:
        changed = False
        for s in ast.walk(fn):
            if isinstance(s, ast.stmt) and not isinstance(s, (ast.If, ast.For, ast.While, ast.Try, ast.With, ast.FunctionDef)) and _touches(s, names):
                val = s.value if not isinstance(s, ast.Expr) else s.value
                new = (_names_read(val) if val is not None else set()) - set(stop) - names
                if new:
                    names |= new
                    changed = True
            if isinstance(s, ast.For) and any(isinstance(n, ast.Name) and n.id in names for n in ast.walk(s.target)):
                new = _names_read(s.iter) - set(stop) - names
                if new:
                    names |= new
                    changed = True
            if isinstance(s, (ast.If, ast.While)):
                inner = [x for b in (s.body, s.orelse) for y in b for x in ast.walk(y)]
                if any(isinstance(x, ast.stmt) and _touches(x, names) for x in inner):
                    new = _names_read(s.test) - set(stop) - names
                    if new:
                        names |= new
                        changed = True
    return names


def fold_slice(folder, fn, var, env):
    """Fold only the statements of fn on which `var` depends; a test that cannot be folded selects the branch that contains
    relevant statements (Unfoldable when both do).  Returns the final value of var (Unfoldable if never bound)."""
    names = slice_names(fn, var)

    def relevant(stmts):
        for s in stmts:
            for x in ast.walk(s):
                if isinstance(x, ast.stmt) and _touches(x, names):
                    return True
                if isinstance(x, ast.For) and any(isinstance(n, ast.Name) and n.id in names for n in ast.walk(x.target)):
                    return True
        return False

    def run(stmts):
        for s in stmts:
            folder.tick()
            if isinstance(s, (ast.Assign, ast.AugAssign, ast.Expr)):
                if _touches(s, names):
                    try:
                        folder.run([s], env)
                    except Unfoldable:
                        # the value is not a constant of the model: what is bound here is unknown from now on
                        if isinstance(s, ast.Expr):
                            if s.value.func.value.id == var:
                                raise
                            env.pop(s.value.func.value.id, None)
                        else:
                            tg = s.targets if isinstance(s, ast.Assign) else [s.target]
                            for t in tg:
                                for n in ast.walk(t):
                                    if isinstance(n, ast.Name):
                                        if n.id == var:
                                            raise
                                        env.pop(n.id, None)
            elif isinstance(s, ast.If):
                rb, ro = relevant(s.body), relevant(s.orelse)
                if not (rb or ro):
                    continue
                try:
                    t = folder.ev(s.test, env)
                except Unfoldable:
                    if rb and ro:
                        raise
                    t = rb
                run(s.body if t else s.orelse)
            elif isinstance(s, ast.For):
                if not relevant(s.body):
                    continue
                for v in folder.ev(s.iter, env):
                    folder.bind(s.target, v, env)
                    run(s.body)
            elif isinstance(s, (ast.With,)):
                run(s.body)
            elif isinstance(s, ast.Try):
                run(s.body)
                run(s.orelse)
            elif isinstance(s, ast.Return):
                return
    run(fn.body)
    if var not in env:
        raise Unfoldable('%s is never bound' % var)
    return env[var]
