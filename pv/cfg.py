"""Statement-level control-flow graph for one Python function.

Nodes: entry, exit (normal return / fall off), raise_exit (exception leaves),
one node per simple statement, one 'test' node per short-circuit operand of a
condition (so `a and b` has two test nodes with T/F edges), loop heads (kind
'loop', stmt = the For/While), 'dispatch' nodes for try statements and
'handler' nodes for except clauses.  Edge labels: None, 'T', 'F', 'exc',
'loop' (back edge), 'break', 'continue', 'return'.
"""
import ast


class Node:
    __slots__ = ('id', 'stmt', 'kind', 'succ', 'pred', 'tries', 'handlers', 'loops')

    def __init__(self, id, stmt, kind):
        self.id = id
        self.stmt = stmt
        self.kind = kind
        self.succ = []
        self.pred = []
        self.tries = ()     # Try statements whose *body* encloses this node (outer..inner)
        self.handlers = ()  # ExceptHandler nodes whose body encloses this node
        self.loops = ()     # loop statements enclosing this node

    @property
    def line(self):
        return getattr(self.stmt, 'lineno', 0)

    def __repr__(self):
        s = ''
        if self.stmt is not None:
            try:
                s = ast.unparse(self.stmt).split('\n')[0][:60]
            except Exception:
                s = type(self.stmt).__name__
        return '<%d %s %s>' % (self.id, self.kind, s)


def _catches_all(h):
    if h.type is None:
        return True
    t = h.type
    names = [t] if not isinstance(t, ast.Tuple) else t.elts
    for n in names:
        if isinstance(n, ast.Name) and n.id in ('Exception', 'BaseException'):
            return True
    return False


class CFG:
    def __init__(self, fn):
        self.fn = fn
        self.nodes = []
        self._try = []       # dispatch nodes
        self._try_stmts = []
        self._handlers = []
        self._loops = []     # (head, break_join, stmt)
        self._finally = []
        self.entry = self.new(None, 'entry')
        self.exit = self.new(None, 'exit')
        self.raise_exit = self.new(None, 'raise_exit')
        self.by_stmt = {}
        last = self.block(fn.body, [(self.entry, None)])
        for n, l in last:
            self.edge(n, self.exit, l)

    # -- construction -----------------------------------------------------
    def new(self, stmt, kind):
        n = Node(len(self.nodes), stmt, kind)
        n.tries = tuple(self._try_stmts)
        n.handlers = tuple(self._handlers)
        n.loops = tuple(l[2] for l in self._loops)
        self.nodes.append(n)
        if stmt is not None:
            self.by_stmt.setdefault(id(stmt), []).append(n)
        return n

    def edge(self, a, b, label=None):
        a.succ.append((b, label))
        b.pred.append((a, label))

    def connect(self, frontier, node):
        for n, l in frontier:
            self.edge(n, node, l)

    def exc_target(self):
        return self._try[-1] if self._try else self.raise_exit

    @staticmethod
    def may_raise(stmt):
        for n in ast.walk(stmt):
            if isinstance(n, (ast.Call, ast.Subscript, ast.Attribute, ast.BinOp, ast.Compare)):
                return True
        return False

    def cond(self, test, frontier):
        if isinstance(test, ast.UnaryOp) and isinstance(test.op, ast.Not):
            t, f = self.cond(test.operand, frontier)
            return f, t
        if isinstance(test, ast.BoolOp):
            if isinstance(test.op, ast.And):
                falses, cur = [], frontier
                for v in test.values:
                    t, f = self.cond(v, cur)
                    falses += f
                    cur = t
                return cur, falses
            trues, cur = [], frontier
            for v in test.values:
                t, f = self.cond(v, cur)
                trues += t
                cur = f
            return trues, cur
        n = self.new(test, 'test')
        self.connect(frontier, n)
        if self.may_raise(test):
            self.edge(n, self.exc_target(), 'exc')
        return [(n, 'T')], [(n, 'F')]

    def block(self, stmts, frontier):
        for s in stmts:
            if not frontier:
                break
            frontier = self.stmt(s, frontier)
        return frontier

    def stmt(self, s, frontier):
        if isinstance(s, ast.If):
            tf, ff = self.cond(s.test, frontier)
            a = self.block(s.body, tf)
            b = self.block(s.orelse, ff) if s.orelse else ff
            return a + b
        if isinstance(s, (ast.While, ast.For)):
            head = self.new(s, 'loop')
            self.connect(frontier, head)
            self.edge(head, self.exc_target(), 'exc')
            brk = self.new(None, 'join')
            self._loops.append((head, brk, s))
            if isinstance(s, ast.While):
                infinite = isinstance(s.test, ast.Constant) and bool(s.test.value)
                if infinite:
                    tf, ff = [(head, 'T')], []
                else:
                    tf, ff = self.cond(s.test, [(head, None)])
            else:
                tf, ff = [(head, 'T')], [(head, 'F')]
            body_end = self.block(s.body, tf)
            self._loops.pop()
            for n, l in body_end:
                self.edge(n, head, l or 'loop')
            out = self.block(s.orelse, ff) if s.orelse else list(ff)
            if brk.pred:
                out = out + [(brk, None)]
            return out
        if isinstance(s, ast.Try):
            return self.try_(s, frontier)
        if isinstance(s, (ast.With, ast.AsyncWith)):
            n = self.new(s, 'with')
            self.connect(frontier, n)
            self.edge(n, self.exc_target(), 'exc')
            return self.block(s.body, [(n, None)])
        if isinstance(s, (ast.FunctionDef, ast.AsyncFunctionDef, ast.ClassDef)):
            n = self.new(s, 'def')
            self.connect(frontier, n)
            return [(n, None)]
        n = self.new(s, 'stmt')
        self.connect(frontier, n)
        if isinstance(s, ast.Return):
            if s.value is not None and self.may_raise(s.value):
                self.edge(n, self.exc_target(), 'exc')
            if self._finally:
                self.edge(n, self._finally[-1], 'return')
            else:
                self.edge(n, self.exit, 'return')
            return []
        if isinstance(s, ast.Raise):
            self.edge(n, self.exc_target(), 'exc')
            return []
        if isinstance(s, ast.Break):
            self.edge(n, self._loops[-1][1], 'break')
            return []
        if isinstance(s, ast.Continue):
            self.edge(n, self._loops[-1][0], 'continue')
            return []
        if isinstance(s, ast.Assert) or self.may_raise(s):
            self.edge(n, self.exc_target(), 'exc')
        return [(n, None)]

    def try_(self, s, frontier):
        dispatch = self.new(s, 'dispatch')
        fin = None
        if s.finalbody:
            fin = self.new(None, 'join')
            self._finally.append(fin)
        self._try.append(dispatch)
        self._try_stmts.append(s)
        body_end = self.block(s.body, frontier)
        self._try.pop()
        self._try_stmts.pop()
        else_end = self.block(s.orelse, body_end) if s.orelse else body_end
        out = list(else_end)
        catches_all = False
        for h in s.handlers:
            self._handlers.append(h)
            hn = self.new(h, 'handler')
            self.edge(dispatch, hn, 'exc')
            if _catches_all(h):
                catches_all = True
            out += self.block(h.body, [(hn, None)])
            self._handlers.pop()
        if not catches_all:
            self.edge(dispatch, fin if fin is not None else self.exc_target(), 'exc')
        if fin is not None:
            self._finally.pop()
            self.connect(out, fin)
            fend = self.block(s.finalbody, [(fin, None)])
            # a propagating exception / return continues after the finally block
            for n, l in fend:
                self.edge(n, self.exc_target(), 'exc')
            return fend
        return out

    # -- queries -------------------------------------------------------------
    def nodes_of(self, stmt):
        return self.by_stmt.get(id(stmt), [])

    def find(self, pred):
        return [n for n in self.nodes if n.stmt is not None and pred(n)]

    def reachable(self, start=None, avoid=(), labels_excluded=()):
        start = start or self.entry
        avoid = set(x.id for x in avoid)
        seen = set()
        st = [start]
        while st:
            n = st.pop()
            if n.id in seen or n.id in avoid:
                continue
            seen.add(n.id)
            for m, l in n.succ:
                if l in labels_excluded:
                    continue
                st.append(m)
        return seen

    def all_paths_pass(self, src, dst, through, labels_excluded=()):
        """True iff every path src->dst passes a node in `through`."""
        if src in through:
            return True
        return dst.id not in self.reachable(src, through, labels_excluded)

    def exists_path(self, src, dst, avoid=(), labels_excluded=()):
        if src in avoid:
            return False
        return dst.id in self.reachable(src, avoid, labels_excluded)

    def dominators(self):
        if getattr(self, '_dom', None) is not None:
            return self._dom
        reach = self.reachable()
        ids = [n.id for n in self.nodes if n.id in reach]
        dom = {i: set(ids) for i in ids}
        dom[self.entry.id] = {self.entry.id}
        changed = True
        while changed:
            changed = False
            for i in ids:
                if i == self.entry.id:
                    continue
                ps = [p.id for p, _ in self.nodes[i].pred if p.id in dom]
                new = None
                for p in ps:
                    new = set(dom[p]) if new is None else (new & dom[p])
                new = (new or set()) | {i}
                if new != dom[i]:
                    dom[i] = new
                    changed = True
        self._dom = dom
        return dom

    def dominates(self, a, b):
        d = self.dominators()
        return b.id in d and a.id in d[b.id]

    def edge_dominates(self, test_node, label, b):
        """Every path entry->b traverses the edge (test_node, label)."""
        # b unreachable when that edge is removed
        seen = set()
        st = [self.entry]
        while st:
            n = st.pop()
            if n.id in seen:
                continue
            seen.add(n.id)
            for m, l in n.succ:
                if n is test_node and l == label:
                    continue
                st.append(m)
        return b.id not in seen and b.id in self.reachable()

    def paths(self, src, dst, limit=5000, labels_excluded=('loop', 'continue')):
        """Enumerate acyclic paths (lists of (node,label)) from src to dst."""
        out = []
        stack = [(src, [])]
        while stack:
            n, path = stack.pop()
            if n is dst:
                out.append(path)
                if len(out) > limit:
                    raise RuntimeError('path limit')
                continue
            for m, l in n.succ:
                if l in labels_excluded:
                    continue
                if any(p[0] is m for p in path):
                    continue
                stack.append((m, path + [(m, l)]))
        return out


def expr_nodes(node):
    """The expression parts evaluated *at* a CFG node (not its nested blocks)."""
    s = node.stmt
    if s is None:
        return []
    if node.kind == 'test':
        return [s]
    if node.kind == 'loop':
        return [s.iter] if isinstance(s, ast.For) else []
    if node.kind == 'with':
        return [i.context_expr for i in s.items]
    if node.kind in ('dispatch', 'handler', 'def'):
        return []
    return [s]


def calls_at(node):
    out = []
    for e in expr_nodes(node):
        for n in ast.walk(e):
            if isinstance(n, ast.Call):
                out.append(n)
    return out
