"""Model of kmip/core/factories/attribute_values.py: which value class (and tag) each registry arm constructs."""
import ast

from .astutil import U, dotted, get_class, get_method, walk_local, is_self_attr, enum_member, call_name, params
from .index import Index
from .polmodel import enum_table, attribute_name_tag_table
from .source import AnalysisError

AVF = 'kmip/core/factories/attribute_values.py'


class FactoryModel:
    def __init__(self, src, index=None):
        self.src = src
        self.ix = index or Index(src)
        t = src.tree(AVF)
        self.cls = get_class(t, 'AttributeValueFactory')
        self.by_name = self._arms(get_method(self.cls, 'create_attribute_value'), 'AttributeType')
        self.by_tag = self._arms(get_method(self.cls, 'create_attribute_value_by_enum'), 'Tags')
        self.attr_types = enum_table(src, 'AttributeType')   # member -> display name
        self.name_to_tag = dict(attribute_name_tag_table(src))

    def _result_classes(self, expr, depth=0):
        """Return expression -> set of (class ref, tag member or None); None element = unresolved."""
        out = set()
        if isinstance(expr, ast.Call):
            f = expr.func
            if is_self_attr(f) and depth < 3:
                h = get_method(self.cls, f.attr, optional=True)
                if h is not None:
                    for r in [n for n in walk_local(h) if isinstance(n, ast.Return) and n.value is not None]:
                        out |= self._result_classes(r.value, depth + 1)
                    return out
            ref = self.ix.resolve_class(AVF, f)
            if ref is None and isinstance(f, ast.Attribute):
                # Class.create(...) style alternative constructor
                ref = self.ix.resolve_class(AVF, f.value)
            if ref is not None:
                tag = None
                for a in list(expr.args) + [k.value for k in expr.keywords]:
                    em = enum_member(a, 'Tags')
                    if em:
                        tag = em[1]
                out.add((ref, tag))
                return out
        out.add((None, U(expr)))
        return out

    def _arms(self, fn, enum_cls):
        folded = self._arms_folded(fn, enum_cls)
        if folded is None or len(folded) < 30:
            # nothing to look at in the return statements (`return builder(value)`): evaluate the registry instead
            ev = self._arms_evaluated(fn, enum_cls)
            if ev is not None:
                folded = ev
        if folded is not None:
            if len(folded) < 30:
                raise AnalysisError('instance floor not met: %s has %d arms' % (fn.name, len(folded)))
            return folded
        return self._arms_spelled(fn, enum_cls)

    def _arms_evaluated(self, fn, enum_cls):
        """member -> constructed classes, by EVALUATING the registry function for every member with an empty value (as the decoders call
        it): constructors of other modules are recorded, not run (pv/fold.py ExtRef / Built), so a registry driven by tables of classes,
        partials and bound helper methods folds to the same answer as the if-chain it replaced.  None when something is not modelled."""
        from .fold import Folder, Enum, Built, Unfoldable, Raised
        from .polmodel import all_enum_tables
        members = enum_table(self.src, enum_cls)
        tabs = all_enum_tables(self.src)
        tree = self.src.tree(AVF)
        arms = {}
        try:
            for mname in members:
                f = Folder(steps=40000)
                f.ext_refs = True
                f.module = tree
                f.enum_tables = {k: list(v) for k, v in tabs.items()}
                selfv = Folder.new_object(self.cls)
                try:
                    r = f.call_method(fn, selfv, [Enum(enum_cls, mname), None], {})
                except Raised as ex:
                    if ex.name in ('NotImplementedError',):
                        arms[mname] = None
                    continue
                if r is None:
                    continue
                if not isinstance(r, Built):
                    return None
                ref = self.ix.resolve_class(AVF, ast.parse(r.name, mode='eval').body)
                if ref is None and '.' in r.name:
                    ref = self.ix.resolve_class(AVF, ast.parse(r.name.rsplit('.', 1)[0], mode='eval').body)      # Class.create(...)
                if ref is None:
                    arms[mname] = {(None, r.name)}
                    continue
                tag = None
                for a in list(r.args) + list(r.kw.values()):
                    if isinstance(a, Enum) and a.cls == 'Tags':
                        tag = a.name
                arms[mname] = {(ref, tag)}
        except (Unfoldable, RecursionError):
            return None
        return arms

    def _arms_folded(self, fn, enum_cls):
        """member -> constructed classes, by folding the registry function for every member of the selector's enumeration: the
        return statement reached for that member is looked at (None = raises NotImplementedError/ValueError, i.e. refuses).  Works
        for if-chains, early returns, lookup tables (expanded at parse time) and helpers (expanded in place) alike; None when the
        function uses something the folder does not model."""
        from .fold import Folder, Enum, Opaque, Unfoldable, Raised, Captured
        members = enum_table(self.src, enum_cls)
        ps = params(fn)
        arms = {}
        try:
            for mname in members:
                f = Folder(steps=20000)
                f.capture_returns = True
                env = {'self': {'__attrs__': ()}, ps[0]: Enum(enum_cls, mname)}
                for p_ in ps[1:]:
                    env[p_] = Opaque('argument')
                try:
                    r = f.run(fn.body, env)
                    continue        # falls off the end: returns None, not an arm
                except Captured as c:
                    v = c.node.value
                    if v is None or (isinstance(v, ast.Constant) and v.value is None):
                        continue
                    # constants known at the return (e.g. the table key) are put in place
                    arms[mname] = self._result_classes(v)
                except Raised as ex:
                    if ex.name in ('NotImplementedError',):
                        arms[mname] = None
                    # ValueError etc.: the member is not an attribute for this registry
        except Unfoldable:
            return None
        return arms

    def _arms_spelled(self, fn, enum_cls):
        var = params(fn)[0]
        arms = {}
        for n in ast.walk(fn):
            if isinstance(n, ast.If) and isinstance(n.test, ast.Compare) and isinstance(n.test.left, ast.Name) and n.test.left.id == var:
                em = enum_member(n.test.comparators[0], enum_cls)
                if not em:
                    continue
                res = set()
                raises = False
                for s in n.body:
                    if isinstance(s, ast.Return) and s.value is not None:
                        res |= self._result_classes(s.value)
                        break      # statements after the first return are dead
                    if isinstance(s, ast.Raise):
                        raises = True
                        break
                arms[em[1]] = None if (raises and not res) else res
        if len(arms) < 30:
            raise AnalysisError('instance floor not met: %s has %d arms' % (fn.name, len(arms)))
        return arms

    def classes_for_name(self, display_name):
        """Attribute display name -> set of class refs any of the two registries constructs for it."""
        out = set()
        for member, disp in self.attr_types.items():
            if disp == display_name and self.by_name.get(member):
                out |= {c for c, t in self.by_name[member] if c}
        tag = self.name_to_tag.get(display_name)
        if tag and self.by_tag.get(tag):
            out |= {c for c, t in self.by_tag[tag] if c}
        return out
