"""Class table of kmip/pie/objects.py: classes, bases, fields (columns, relationships, properties, methods, __init__ attributes)."""
import ast

from .astutil import U, dotted, walk_local, is_self_attr, enum_member
from .source import AnalysisError

PIEOBJ = 'kmip/pie/objects.py'


class PieModel:
    def __init__(self, src):
        self.tree = src.tree(PIEOBJ)
        self.classes = {n.name: n for n in self.tree.body if isinstance(n, ast.ClassDef)}
        self._fields = {}

    def bases(self, c):
        out = []
        for b in self.classes[c].bases:
            bn = b.id if isinstance(b, ast.Name) else (b.attr if isinstance(b, ast.Attribute) else None)
            if bn in self.classes:
                out.append(bn)
        return out

    def issub(self, c, base):
        if c == base:
            return True
        return any(self.issub(b, base) for b in self.bases(c))

    def own_fields(self, c):
        f = {}
        for n in self.classes[c].body:
            if isinstance(n, ast.Assign):
                for t in n.targets:
                    if isinstance(t, ast.Name):
                        f[t.id] = n
            elif isinstance(n, ast.FunctionDef):
                f.setdefault(n.name, n)
                if n.name == '__init__':
                    for m in walk_local(n):
                        if is_self_attr(m) and isinstance(m.ctx, ast.Store):
                            f.setdefault(m.attr, m)
        return f

    def fields(self, c):
        if c not in self._fields:
            f = {}
            for b in self.bases(c):
                f.update(self.fields(b))
            f.update(self.own_fields(c))
            self._fields[c] = f
        return self._fields[c]

    def loaded_fields(self, c):
        """what an instance the ORM loaded has: SQLAlchemy does not run __init__ on load, so only names defined at class level somewhere in
        the MRO (columns, relationships, properties, methods) and attributes stored by a @reconstructor method exist - a plain attribute
        that only __init__ stores (self._archive_date = None) is absent on every object that came out of a query"""
        f = set()
        for b in self.bases(c):
            f |= self.loaded_fields(b)
        for n in self.classes[c].body:
            if isinstance(n, ast.Assign):
                f |= {t.id for t in n.targets if isinstance(t, ast.Name)}
            elif isinstance(n, ast.FunctionDef):
                f.add(n.name)
                if any((dotted(d) or '').split('.')[-1] == 'reconstructor' for d in n.decorator_list):
                    f |= {m.attr for m in walk_local(n) if is_self_attr(m) and isinstance(m.ctx, ast.Store)}
        return f

    def has(self, c, field):
        return field in self.fields(c)

    def object_type_of(self, c):
        """ObjectType constant the class's __init__ stores in _object_type (None if not set)."""
        init = self.own_fields(c).get('__init__')
        if isinstance(init, ast.FunctionDef):
            for n in walk_local(init):
                if isinstance(n, ast.Assign) and is_self_attr(n.targets[0], '_object_type'):
                    em = enum_member(n.value, 'ObjectType')
                    if em:
                        return em[1]
        return None
