"""Constant-folded model of AttributePolicy (kmip/services/server/policy.py) and helper tables from enums.py."""
import ast

from .astutil import U, dotted, get_class, get_method, walk_local, is_self_attr, enum_member, params, call_name
from .source import AnalysisError

POLICY = 'kmip/services/server/policy.py'
ENUMS = 'kmip/core/enums.py'


def fold_version(node):
    """contents.ProtocolVersion(a, b) -> (a, b); None constant -> None."""
    if isinstance(node, ast.Constant) and node.value is None:
        return None
    if isinstance(node, ast.Call) and (call_name(node) or '').endswith('ProtocolVersion'):
        vals = [a.value for a in node.args if isinstance(a, ast.Constant)]
        kw = {k.arg: k.value.value for k in node.keywords if isinstance(k.value, ast.Constant)}
        if len(vals) == 2:
            return (vals[0], vals[1])
        if 'major' in kw and 'minor' in kw:
            return (kw['major'], kw['minor'])
    raise AnalysisError('unrecognised construct: protocol version expression %s' % U(node))


class PolicyModel:
    def __init__(self, src):
        self.src = src
        t = src.tree(POLICY)
        self.cls = get_class(t, 'AttributePolicy')
        rs = get_class(t, 'AttributeRuleSet')
        rs_init = get_method(rs, '__init__', optional=True)
        self.param_field = {}
        if rs_init is not None:
            self.rs_params = params(rs_init)
            # parameter -> stored field name
            for n in walk_local(rs_init):
                if isinstance(n, ast.Assign) and is_self_attr(n.targets[0]) and isinstance(n.value, ast.Name):
                    self.param_field[n.value.id] = n.targets[0].attr
        else:
            # an immutable record: a namedtuple (sub)class whose __new__ keeps the constructor signature and hands the values to the tuple
            from .source import _NamedTuples
            rs_new = get_method(rs, '__new__', optional=True)
            base = rs.bases[0] if len(rs.bases) == 1 else None
            if isinstance(base, ast.Name):
                defs = [x.value for x in t.body if isinstance(x, ast.Assign) and len(x.targets) == 1 and isinstance(x.targets[0], ast.Name) and x.targets[0].id == base.id]
                base = defs[0] if len(defs) == 1 else None
            fields = _NamedTuples._fields(base) if isinstance(base, ast.Call) else None
            if fields is None:
                raise AnalysisError('anchor vanished: AttributeRuleSet has neither __init__ nor a namedtuple base')
            if rs_new is None:
                self.rs_params = list(fields)
                self.param_field = {f: f for f in fields}
            else:
                self.rs_params = [a.arg for a in rs_new.args.args][1:]
                calls = [c for c in walk_local(rs_new) if isinstance(c, ast.Call) and isinstance(c.func, ast.Attribute) and c.func.attr == '__new__']
                if len(calls) != 1 or calls[0].keywords or len(calls[0].args) != len(fields) + 1:
                    raise AnalysisError('unrecognised construct: AttributeRuleSet.__new__ does not hand its parameters to the tuple constructor positionally')
                for f, a in zip(fields, calls[0].args[1:]):
                    if isinstance(a, ast.Name):
                        self.param_field[a.id] = f
        self.field_param = {v: k for k, v in self.param_field.items()}
        init = get_method(self.cls, '__init__')
        table = None
        for n in walk_local(init):
            if isinstance(n, ast.Assign) and is_self_attr(n.targets[0], '_attribute_rule_sets'):
                table = n.value
        if not isinstance(table, ast.Dict):
            from .astutil import find_dict_literal
            table = find_dict_literal(self.cls, table, fn=init) if table is not None else None      # built once by a helper and shared / copied / wrapped read-only
        if not isinstance(table, ast.Dict):
            raise AnalysisError('unrecognised construct: AttributePolicy._attribute_rule_sets is not a dict literal')
        self.rules = {}
        self.rule_nodes = {}
        for k, v in zip(table.keys, table.values):
            if not (isinstance(k, ast.Constant) and isinstance(k.value, str)):
                raise AnalysisError('unrecognised construct: rule table key %s' % U(k))
            if not (isinstance(v, ast.Call) and (call_name(v) or '').endswith('AttributeRuleSet')):
                raise AnalysisError('unrecognised construct: rule table value for %s' % k.value)
            b = {}
            for p, a in zip(self.rs_params, v.args):
                b[p] = a
            for kw in v.keywords:
                b[kw.arg] = kw.value
            e = {}
            for p, a in b.items():
                if p in ('version_added', 'version_deprecated'):
                    e[p] = fold_version(a)
                elif isinstance(a, ast.Constant):
                    e[p] = a.value
                elif isinstance(a, (ast.Tuple, ast.List)):
                    ms = [enum_member(x) for x in a.elts]
                    if all(ms):
                        e[p] = frozenset(m[1] for m in ms)
                    else:
                        e[p] = tuple(x.value if isinstance(x, ast.Constant) else U(x) for x in a.elts)
                else:
                    e[p] = U(a)
            e.setdefault('version_deprecated', None)
            if k.value in self.rules:
                raise AnalysisError('duplicate rule table key %s' % k.value)
            self.rules[k.value] = e
            self.rule_nodes[k.value] = v
        self.names = frozenset(self.rules)
        # query methods: which dereference the rule set without a membership test
        self.deref = set()
        self.query_field = {}
        self.guard_quality = {}
        from .inline import flat_methods
        for name, m in sorted(flat_methods(self.cls)[0].items()):          # helpers introduced later (a rule-set accessor ...) are expanded in place
            if not name.startswith('is_attribute'):
                continue
            guarded = False
            for n in walk_local(m):
                if isinstance(n, ast.Compare) and isinstance(n.ops[0], (ast.NotIn, ast.In)) and '_attribute_rule_sets' in U(n.comparators[0]):
                    guarded = True
            rsvars = set(a.targets[0].id for a in walk_local(m) if isinstance(a, ast.Assign) and isinstance(a.targets[0], ast.Name) and '_attribute_rule_sets' in U(a.value))
            if not guarded and rsvars:
                # the other spelling of the guard: the looked-up rule set is tested for None before every read of one of its fields
                from .cfg import CFG
                from .dataflow import node_of_expr
                from .guards import dominating_edges, is_none_test
                g_ = CFG(m)
                reads = [x for x in walk_local(m) if isinstance(x, ast.Attribute) and isinstance(x.value, ast.Name) and x.value.id in rsvars and isinstance(x.ctx, ast.Load)]
                def tested(x):
                    nd = node_of_expr(g_, x)
                    if nd is None:
                        return False
                    for tt, lab in dominating_edges(g_, nd):
                        nt = is_none_test(tt.stmt)
                        if nt and U(nt[1]) == x.value.id and ((nt[0] == 'isnot') == (lab == 'T')):
                            return True
                        if U(tt.stmt) == x.value.id and lab == 'T':
                            return True
                    return False
                guarded = bool(reads) and all(tested(x) for x in reads)
            if not guarded:
                self.deref.add(name)
            self.guard_quality[name] = self._guard_quality(m)
            flds = sorted(set(x.attr for x in walk_local(m) if isinstance(x, ast.Attribute) and ((isinstance(x.value, ast.Name) and x.value.id in rsvars)
                                                                                                or (isinstance(x.value, (ast.Call, ast.Subscript)) and '_attribute_rule_sets' in U(x.value)))))
            self.query_field[name] = flds

    def _guard_quality(self, m):
        """How a query method treats the attribute name it is given: list of problems (empty = the membership test and every rule-set lookup use
        the name parameter itself, unmodified)."""
        from .cfg import CFG
        from .dataflow import ReachingDefs
        a = [x.arg for x in m.args.args]
        if len(a) < 2:
            return ['no attribute-name parameter']
        pname = a[1]
        g = CFG(m)
        rd = ReachingDefs(g)
        probs = []
        from .cfg import expr_nodes
        for n in g.nodes:
            for e in expr_nodes(n):
                for x in ast.walk(e):
                    key = None
                    if isinstance(x, ast.Compare) and isinstance(x.ops[0], (ast.NotIn, ast.In)) and '_attribute_rule_sets' in U(x.comparators[0]):
                        key = x.left
                        what = 'membership test'
                    elif isinstance(x, ast.Call) and isinstance(x.func, ast.Attribute) and x.func.attr == 'get' and '_attribute_rule_sets' in U(x.func.value) and x.args:
                        key = x.args[0]
                        what = 'rule-set lookup'
                    elif isinstance(x, ast.Subscript) and '_attribute_rule_sets' in U(x.value):
                        key = x.slice
                        what = 'rule-set lookup'
                    if key is None:
                        continue
                    if not (isinstance(key, ast.Name) and key.id == pname):
                        probs.append('%s at line %d uses %s, not the name parameter %s' % (what, x.lineno, U(key), pname))
                        continue
                    defs = rd.reaching(n, pname)
                    if any(d[2] is not None for d in defs):
                        probs.append('%s at line %d uses %s after it was reassigned (line %s)' % (what, x.lineno, pname, sorted(d[2].line for d in defs if d[2] is not None)))
        return probs

    def flag(self, name, param):
        return self.rules[name].get(param)


def attribute_name_tag_table(src):
    """[(name string, Tags member)] from enums.attribute_name_tag_table (constant folded)."""
    t = src.tree(ENUMS)
    for n in t.body:
        if isinstance(n, ast.Assign) and isinstance(n.targets[0], ast.Name) and n.targets[0].id == 'attribute_name_tag_table':
            out = []
            for e in n.value.elts:
                out.append((e.elts[0].value, enum_member(e.elts[1])[1]))
            return out
    raise AnalysisError('anchor vanished: enums.attribute_name_tag_table')


def enum_table(src, enum_name):
    """Members of an enum class in kmip/core/enums.py -> {member: folded value}."""
    t = src.tree(ENUMS)
    c = get_class(t, enum_name)
    out = {}
    for n in c.body:
        if isinstance(n, ast.Assign) and isinstance(n.targets[0], ast.Name):
            try:
                out[n.targets[0].id] = ast.literal_eval(n.value)
            except Exception:
                out[n.targets[0].id] = U(n.value)
    return out


_ALL_ENUMS = {}


def all_enum_tables(src):
    """{enumeration class name: {member: folded value}} for every class of kmip/core/enums.py with simple member assignments"""
    key = id(src)
    if key not in _ALL_ENUMS:
        t = src.tree(ENUMS)
        out = {}
        for c in t.body:
            if isinstance(c, ast.ClassDef):
                mem = {}
                for n in c.body:
                    if isinstance(n, ast.Assign) and len(n.targets) == 1 and isinstance(n.targets[0], ast.Name):
                        try:
                            mem[n.targets[0].id] = ast.literal_eval(n.value)
                        except Exception:
                            mem[n.targets[0].id] = U(n.value)
                if mem:
                    out[c.name] = mem
        _ALL_ENUMS[key] = out
    return _ALL_ENUMS[key]
