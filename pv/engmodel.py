"""Facts about kmip/services/server/engine.py shared by the engine rules."""
import ast

from .astutil import (U, dotted, get_class, methods, get_method, walk_local, is_self_attr,
                      enum_member, decorator_names, call_name, qualname)
from .source import AnalysisError

ENGINE = 'kmip/services/server/engine.py'
SESSION = 'kmip/services/server/session.py'
SERVER = 'kmip/services/server/server.py'
POLICY = 'kmip/services/server/policy.py'
CRYPTO = 'kmip/services/server/crypto/engine.py'
PIEOBJ = 'kmip/pie/objects.py'
ENUMS = 'kmip/core/enums.py'

CHOKE = '_get_object_with_access_controls'
LISTER = '_list_objects_with_access_controls'


class EngineModel:
    def __init__(self, src):
        self.src = src
        self.tree = src.tree(ENGINE)
        self.cls = get_class(self.tree, 'KmipEngine')
        from .inline import flat_methods
        fm, self.absorbed = flat_methods(self.cls)
        self.methods = dict(fm)
        # the decorators of the engine's methods (the lock, the version gate) may live at module level instead of in the class body:
        # a module-level function that decorates a method of the class is part of the engine just the same
        modfns = {f.name: f for f in self.tree.body if isinstance(f, ast.FunctionDef)}
        self.module_decorators = {}
        for f in self.cls.body:
            if isinstance(f, ast.FunctionDef):
                for d in f.decorator_list:
                    dn = d.func if isinstance(d, ast.Call) else d
                    if isinstance(dn, ast.Name) and dn.id in modfns and dn.id not in self.methods:
                        self.module_decorators[dn.id] = modfns[dn.id]
        self.methods.update(self.module_decorators)
        self.dispatch = self._dispatch()
        self.handlers = sorted(set(self.dispatch.values()))

    def method(self, name):
        if name in self.module_decorators:
            return self.module_decorators[name]
        return get_method(self.cls, name)

    def site(self, node, fn=None):
        q = 'KmipEngine.' + fn.name if fn is not None else qualname(node)
        return '%s:%s %s' % (ENGINE, getattr(node, 'lineno', '?'), q)

    def _dispatch(self):
        """operation member -> handler name, from the if-chain of _process_operation."""
        fn = self.method('_process_operation')
        ps = [a.arg for a in fn.args.args][1:]
        if len(ps) != 2:
            raise AnalysisError('unrecognised construct: _process_operation signature %s' % ps)
        opvar, payvar = ps
        # CFG based (independent of how the chain is spelled: elif chain, negated tests, operands swapped): every return of
        # self.<handler>(payload) is reached under exactly one positive test "operation == Operation.M" and otherwise only negative ones
        from .cfg import CFG
        from .guards import dominating_edges, cmp_parts
        g = CFG(fn)
        from .dataflow import ReachingDefs, resolve
        rd = ReachingDefs(g)
        out = {}
        n_ret = 0
        for n in g.nodes:
            if not (n.kind == 'stmt' and isinstance(n.stmt, ast.Return) and n.stmt.value is not None):
                continue
            call, _dn = resolve(rd, n, n.stmt.value)
            if not (isinstance(call, ast.Call) and is_self_attr(call.func)):
                continue
            if not (len(call.args) == 1 and isinstance(call.args[0], ast.Name) and call.args[0].id == payvar and not call.keywords):
                raise AnalysisError('unrecognised construct: dispatch call %s' % U(call))
            n_ret += 1
            pos = []
            for t, lab in dominating_edges(g, n):
                p = cmp_parts(t.stmt)
                if not p:
                    raise AnalysisError('unrecognised construct: dispatch test %s' % U(t.stmt))
                l, op, r = p
                if isinstance(r, ast.Name) and r.id == opvar:
                    l, r = r, l
                em = enum_member(r, 'Operation')
                if not (isinstance(l, ast.Name) and l.id == opvar and em and op in ('Eq', 'NotEq', 'Is', 'IsNot')):
                    raise AnalysisError('unrecognised construct: dispatch test %s' % U(t.stmt))
                positive = (op in ('Eq', 'Is')) == (lab == 'T')
                if positive:
                    pos.append(em[1])
            if len(pos) != 1:
                raise AnalysisError('unrecognised construct: dispatch arm %s is reached under %d positive operation tests' % (U(call), len(pos)))
            if pos[0] in out:
                raise AnalysisError('dispatch table has two arms for %s' % pos[0])
            out[pos[0]] = call.func.attr
        if not out:
            raise AnalysisError('unrecognised construct: _process_operation has no dispatch arms')
        return out

    def handler_op(self):
        """handler name -> operation member (must be a bijection)."""
        inv = {}
        for op, h in self.dispatch.items():
            if h in inv:
                raise AnalysisError('dispatch table is not injective: %s' % h)
            inv[h] = op
        return inv

    def self_calls(self, fn):
        """[(callee name, Call)] for self.m(...) calls where m is a KmipEngine method."""
        out = []
        for n in walk_local(fn):
            if isinstance(n, ast.Call) and is_self_attr(n.func) and n.func.attr in self.methods:
                out.append((n.func.attr, n))
        return out

    def callgraph(self):
        return {name: sorted(set(c for c, _ in self.self_calls(fn))) for name, fn in self.methods.items()}

    def reach(self, root):
        cg = self.callgraph()
        seen, st = set(), [root]
        while st:
            m = st.pop()
            if m in seen:
                continue
            seen.add(m)
            st.extend(cg.get(m, []))
        return seen

    def field_effects(self):
        """method -> (reads, writes) of self.<field> directly in its body (nested defs excluded)."""
        out = {}
        for name, fn in self.methods.items():
            r, w = {}, {}
            for n in walk_local(fn):
                if is_self_attr(n):
                    if n.attr in self.methods:
                        continue
                    (w if isinstance(n.ctx, (ast.Store, ast.Del)) else r).setdefault(n.attr, []).append(n)
                    # augmented assignment reads too
                    p = getattr(n, '_parent', None)
                    if isinstance(p, ast.AugAssign) and p.target is n:
                        r.setdefault(n.attr, []).append(n)
            out[name] = (r, w)
        return out

    def per_request_fields(self):
        fe = self.field_effects()
        fields = set()
        for m, (r, w) in fe.items():
            if m != '__init__':
                fields |= set(w)
        return fields

    def load_sites(self, fn):
        out = []
        for n in walk_local(fn):
            if isinstance(n, ast.Call) and is_self_attr(n.func, CHOKE):
                out.append(n)
        return out


    # ---- commit / add summaries (so that extracting "add + commit" into a helper does not blind the ordering rules)
    def _is_session_call(self, c, name):
        return isinstance(c, ast.Call) and isinstance(c.func, ast.Attribute) and c.func.attr == name and is_self_attr(c.func.value, '_data_session')

    def always_commits(self, mname, seen=()):
        """Every normal path through method mname passes a commit (directly or through a helper that always commits)."""
        if mname in seen or mname not in self.methods:
            return False
        from .cfg import CFG, calls_at
        g = CFG(self.methods[mname])
        nodes = self.commit_nodes(g, seen + (mname,))
        return bool(nodes) and g.all_paths_pass(g.entry, g.exit, nodes)

    def commit_nodes(self, g, seen=()):
        from .cfg import calls_at
        out = []
        for n in g.nodes:
            for c in calls_at(n):
                if self._is_session_call(c, 'commit'):
                    out.append(n)
                elif is_self_attr(c.func) and c.func.attr in self.methods and c.func.attr not in (CHOKE, LISTER) and self.always_commits(c.func.attr, seen):
                    out.append(n)
        return out

    def adding_params(self, mname, seen=()):
        """Parameter names of method mname that it passes to session.add (directly or via helpers)."""
        if mname in seen or mname not in self.methods:
            return set()
        fn = self.methods[mname]
        ps = [a.arg for a in fn.args.args][1:]
        out = set()
        for c in walk_local(fn):
            if self._is_session_call(c, 'add') and c.args and isinstance(c.args[0], ast.Name) and c.args[0].id in ps:
                out.add(c.args[0].id)
            elif isinstance(c, ast.Call) and is_self_attr(c.func) and c.func.attr in self.methods:
                sub = self.adding_params(c.func.attr, seen + (mname,))
                callee = self.methods[c.func.attr]
                cps = [a.arg for a in callee.args.args][1:]
                for p_, a in zip(cps, c.args):
                    if p_ in sub and isinstance(a, ast.Name) and a.id in ps:
                        out.add(a.id)
        return out

    def add_nodes(self, g, var):
        """CFG nodes at which local variable `var` is handed to session.add (directly or via an adding helper)."""
        from .cfg import calls_at
        out = []
        for n in g.nodes:
            for c in calls_at(n):
                if self._is_session_call(c, 'add') and c.args and isinstance(c.args[0], ast.Name) and c.args[0].id == var:
                    out.append(n)
                elif is_self_attr(c.func) and c.func.attr in self.methods:
                    ap = self.adding_params(c.func.attr)
                    cps = [a.arg for a in self.methods[c.func.attr].args.args][1:]
                    for p_, a in zip(cps, c.args):
                        if p_ in ap and isinstance(a, ast.Name) and a.id == var:
                            out.append(n)
                    for k in c.keywords:
                        if k.arg in ap and isinstance(k.value, ast.Name) and k.value.id == var:
                            out.append(n)
        return out

    def version_gate(self, fn):
        for name, call in decorator_names(fn):
            if name == '_kmip_version_supported' and call is not None and call.args:
                v = call.args[0]
                if isinstance(v, ast.Constant) and isinstance(v.value, str):
                    return v.value
                raise AnalysisError('unrecognised construct: version gate argument %s' % U(v))
        return None


def pure_memo_fields(m):
    """Engine fields that are *pure memo tables*: a dict created empty in __init__ whose only uses are F.get(K) / F[K] / K in F /
    F[K] = V, where - in the method that stores - both the key K and the stored value V are computed from the method's own
    parameters only (no engine field, no call on self), and V is computed from nothing K is not computed from.  Reading such
    a table gives what recomputing would give, so the table carries no request-dependent state from one request to the next.
    -> {field: reason-text};  fields that look like tables but fail a condition are returned in the second dict with the reason."""
    from .cfg import CFG
    from .dataflow import ReachingDefs, node_of_expr
    init = m.methods.get('__init__')
    cands = {}
    if init is None:
        return {}, {}
    for n in walk_local(init):
        if isinstance(n, ast.Assign) and len(n.targets) == 1 and is_self_attr(n.targets[0]):
            v = n.value
            if (isinstance(v, ast.Dict) and not v.keys) or (isinstance(v, ast.Call) and call_name(v) == 'dict' and not v.args and not v.keywords):
                cands[n.targets[0].attr] = n
    good, bad = {}, {}
    for f in sorted(cands):
        why = None
        stores = []
        for name, fn in m.methods.items():
            for n in walk_local(fn):
                if not is_self_attr(n, f):
                    continue
                if name == '__init__' and n is cands[f].targets[0]:
                    continue
                p = getattr(n, '_parent', None)
                if isinstance(n.ctx, (ast.Store, ast.Del)):
                    why = 'rebound in %s' % name
                elif isinstance(p, ast.Subscript) and p.value is n:
                    if isinstance(p.ctx, ast.Store):
                        stores.append((name, fn, p))
                    elif isinstance(p.ctx, ast.Del):
                        why = 'entries deleted in %s' % name
                elif isinstance(p, ast.Attribute) and p.attr == 'get' and isinstance(getattr(p, '_parent', None), ast.Call):
                    pass
                elif isinstance(p, ast.Compare) and n in p.comparators and all(isinstance(o, (ast.In, ast.NotIn)) for o in p.ops):
                    pass
                else:
                    why = 'used otherwise in %s (%s)' % (name, U(p)[:60])
        if why is None and not stores:
            continue        # never filled: not a memo table, an ordinary (constant) field
        for name, fn, sub in stores:
            if why:
                break
            g = CFG(fn)
            rd = ReachingDefs(g)
            node = node_of_expr(g, sub)
            asg = sub._parent
            if node is None or not isinstance(asg, ast.Assign):
                why = 'store shape in %s' % name
                break
            a = fn.args
            ps = {x.arg for x in a.posonlyargs + a.args + a.kwonlyargs} - {'self'}

            def inputs(e, at, depth=0, seen=None):
                """parameters an expression is computed from; None when it reads engine state or anything unresolved"""
                seen = seen if seen is not None else set()
                out = set()
                for x in ast.walk(e):
                    if isinstance(x, ast.Name) and isinstance(x.ctx, ast.Load):
                        if x.id == 'self':
                            return None
                        if x.id in ps:
                            ds = rd.reaching(at, x.id)
                            if all(d[2] is None for d in ds):
                                out.add(x.id)
                                continue
                        ds = rd.reaching(at, x.id)
                        if not ds:
                            continue      # a module-level name (class, function, module)
                        for var, val, dn in ds:
                            if dn is None:
                                out.add(x.id)
                                continue
                            if not isinstance(val, ast.AST) or depth > 6:
                                return None
                            if isinstance(val, ast.Call) and isinstance(val.func, ast.Attribute) and val.func.attr == 'get' and is_self_attr(val.func.value, f):
                                continue      # the table's own entry: equal to the value stored for this key (checked for every store)
                            k = (id(dn), x.id)
                            if k in seen:
                                continue
                            seen.add(k)
                            sub_ = inputs(val, dn, depth + 1, seen)
                            if sub_ is None:
                                return None
                            out |= sub_
                return out
            ki = inputs(sub.slice, node)
            vi = inputs(asg.value, node)
            if ki is None or vi is None:
                why = 'key or stored value in %s depends on engine state' % name
            elif not vi <= ki:
                why = 'the value stored in %s depends on %s, which the key does not cover' % (name, sorted(vi - ki))
        if why:
            bad[f] = why
        else:
            good[f] = 'filled in %s with a value computed from the key\'s inputs only' % ', '.join(sorted(set(s_[0] for s_ in stores)))
    return good, bad
