"""Facts about kmip/services/server/engine.py shared by the engine rules."""
import ast

from .astutil import (U, dotted, get_class, methods, get_method, walk_local, is_self_attr,
                      enum_member, decorator_names, call_name, qualname)
from .source import AnalysisError

ENGINE = 'kmip/services/server/engine.py'
SESSION = 'kmip/services/server/session.py'
SERVER = 'kmip/services/server/server.py'
POLICY = 'kmip/services/server/policy.py'
CRYPTO = 'kmip/services/server/crypto/engine.py'
PIEOBJ = 'kmip/pie/objects.py'
ENUMS = 'kmip/core/enums.py'

CHOKE = '_get_object_with_access_controls'
LISTER = '_list_objects_with_access_controls'


class EngineModel:
    def __init__(self, src):
        self.src = src
        self.tree = src.tree(ENGINE)
        self.cls = get_class(self.tree, 'KmipEngine')
        self.methods = methods(self.cls)
        self.dispatch = self._dispatch()
        self.handlers = sorted(set(self.dispatch.values()))

    def method(self, name):
        return get_method(self.cls, name)

    def site(self, node, fn=None):
        q = 'KmipEngine.' + fn.name if fn is not None else qualname(node)
        return '%s:%s %s' % (ENGINE, getattr(node, 'lineno', '?'), q)

    def _dispatch(self):
        """operation member -> handler name, from the if-chain of _process_operation."""
        fn = self.method('_process_operation')
        ps = [a.arg for a in fn.args.args][1:]
        if len(ps) != 2:
            raise AnalysisError('unrecognised construct: _process_operation signature %s' % ps)
        opvar, payvar = ps
        out = {}
        node = None
        for s in fn.body:
            if isinstance(s, ast.If):
                node = s
                break
        if node is None:
            raise AnalysisError('unrecognised construct: _process_operation has no if-chain')
        while node is not None:
            t = node.test
            if not (isinstance(t, ast.Compare) and len(t.ops) == 1 and isinstance(t.ops[0], ast.Eq)
                    and isinstance(t.left, ast.Name) and t.left.id == opvar):
                raise AnalysisError('unrecognised construct: dispatch test %s' % U(t))
            em = enum_member(t.comparators[0], 'Operation')
            if em is None:
                raise AnalysisError('unrecognised construct: dispatch comparand %s' % U(t.comparators[0]))
            if not (len(node.body) == 1 and isinstance(node.body[0], ast.Return)
                    and isinstance(node.body[0].value, ast.Call)):
                raise AnalysisError('unrecognised construct: dispatch arm for %s' % em[1])
            call = node.body[0].value
            if not (is_self_attr(call.func) and len(call.args) == 1 and isinstance(call.args[0], ast.Name)
                    and call.args[0].id == payvar and not call.keywords):
                raise AnalysisError('unrecognised construct: dispatch call %s' % U(call))
            if em[1] in out:
                raise AnalysisError('dispatch table has two arms for %s' % em[1])
            out[em[1]] = call.func.attr
            nxt = node.orelse
            if len(nxt) == 1 and isinstance(nxt[0], ast.If):
                node = nxt[0]
            else:
                self.dispatch_else = nxt
                node = None
        return out

    def handler_op(self):
        """handler name -> operation member (must be a bijection)."""
        inv = {}
        for op, h in self.dispatch.items():
            if h in inv:
                raise AnalysisError('dispatch table is not injective: %s' % h)
            inv[h] = op
        return inv

    def self_calls(self, fn):
        """[(callee name, Call)] for self.m(...) calls where m is a KmipEngine method."""
        out = []
        for n in walk_local(fn):
            if isinstance(n, ast.Call) and is_self_attr(n.func) and n.func.attr in self.methods:
                out.append((n.func.attr, n))
        return out

    def callgraph(self):
        return {name: sorted(set(c for c, _ in self.self_calls(fn))) for name, fn in self.methods.items()}

    def reach(self, root):
        cg = self.callgraph()
        seen, st = set(), [root]
        while st:
            m = st.pop()
            if m in seen:
                continue
            seen.add(m)
            st.extend(cg.get(m, []))
        return seen

    def field_effects(self):
        """method -> (reads, writes) of self.<field> directly in its body (nested defs excluded)."""
        out = {}
        for name, fn in self.methods.items():
            r, w = {}, {}
            for n in walk_local(fn):
                if is_self_attr(n):
                    if n.attr in self.methods:
                        continue
                    (w if isinstance(n.ctx, (ast.Store, ast.Del)) else r).setdefault(n.attr, []).append(n)
                    # augmented assignment reads too
                    p = getattr(n, '_parent', None)
                    if isinstance(p, ast.AugAssign) and p.target is n:
                        r.setdefault(n.attr, []).append(n)
            out[name] = (r, w)
        return out

    def per_request_fields(self):
        fe = self.field_effects()
        fields = set()
        for m, (r, w) in fe.items():
            if m != '__init__':
                fields |= set(w)
        return fields

    def load_sites(self, fn):
        out = []
        for n in walk_local(fn):
            if isinstance(n, ast.Call) and is_self_attr(n.func, CHOKE):
                out.append(n)
        return out

    def version_gate(self, fn):
        for name, call in decorator_names(fn):
            if name == '_kmip_version_supported' and call is not None and call.args:
                v = call.args[0]
                if isinstance(v, ast.Constant) and isinstance(v.value, str):
                    return v.value
                raise AnalysisError('unrecognised construct: version gate argument %s' % U(v))
        return None
