"""Guard / dominance helpers on CFGs."""
import ast

from .astutil import U, dotted, call_name
from .cfg import CFG, calls_at, expr_nodes


def call_nodes(g, name):
    """CFG nodes evaluating a call whose dotted callee name equals `name` (or ends with '.'+name if name starts with '.')."""
    out = []
    for n in g.nodes:
        for c in calls_at(n):
            cn = call_name(c)
            if cn is None:
                continue
            if cn == name or (name.startswith('.') and cn.endswith(name)):
                out.append((n, c))
    return out


def dominating_edges(g, target):
    """[(test_node, label)] such that every path entry->target traverses that edge."""
    out = []
    dom = g.dominators()
    if target.id not in dom:
        return out
    for i in dom[target.id]:
        t = g.nodes[i]
        if t.kind != 'test' or t is target:
            continue
        for lab in ('T', 'F'):
            if g.edge_dominates(t, lab, target):
                out.append((t, lab))
    return out


def required_edge_from(g, start, test_node, label, target):
    """Every path start->target traverses the edge (test_node,label) (vacuous if target unreachable from start)."""
    seen = set()
    st = [start]
    while st:
        n = st.pop()
        if n.id in seen:
            continue
        seen.add(n.id)
        for m, l in n.succ:
            if n is test_node and l == label:
                continue
            st.append(m)
    return target.id not in seen


def edge_successors(node, label):
    return [m for m, l in node.succ if l == label]


def normal_exit_reachable(g, start, avoid=()):
    return g.exit.id in g.reachable(start, avoid)


def cmp_parts(test):
    """Compare with a single operator -> (left, op class name, right) else None."""
    if isinstance(test, ast.Compare) and len(test.ops) == 1:
        return test.left, type(test.ops[0]).__name__, test.comparators[0]
    return None


def is_none_test(test, var=None):
    """`x is None` / `x == None` -> ('is', x-node); `x is not None` -> ('isnot', x)."""
    p = cmp_parts(test)
    if p and isinstance(p[2], ast.Constant) and p[2].value is None:
        if p[1] in ('Is', 'Eq'):
            return 'is', p[0]
        if p[1] in ('IsNot', 'NotEq'):
            return 'isnot', p[0]
    return None


def handler_catches(h):
    """Names of exception classes an ExceptHandler catches ('*' for bare / Exception / BaseException)."""
    if h.type is None:
        return ['*']
    ts = h.type.elts if isinstance(h.type, ast.Tuple) else [h.type]
    out = []
    for t in ts:
        d = dotted(t) or U(t)
        out.append('*' if d in ('Exception', 'BaseException') else d)
    return out
