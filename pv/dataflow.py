"""Generic intra-procedural dataflow helpers on pv.cfg graphs."""
import ast

from .cfg import CFG, expr_nodes


def assigned_names(node):
    """Local names (re)bound at a CFG node -> list of (name, value_expr_or_None, target_node)."""
    s = node.stmt
    out = []
    if s is None:
        return out

    def targets(t, value):
        if isinstance(t, ast.Name):
            out.append((t.id, value, t))
        elif isinstance(t, (ast.Tuple, ast.List)):
            for i, e in enumerate(t.elts):
                v = None
                if isinstance(value, (ast.Tuple, ast.List)) and len(value.elts) == len(t.elts):
                    v = value.elts[i]
                elif value is not None:
                    v = ('unpack', value, i)
                targets(e, v)
        elif isinstance(t, ast.Starred):
            targets(t.value, None)

    if node.kind == 'stmt':
        if isinstance(s, ast.Assign):
            for t in s.targets:
                targets(t, s.value)
        elif isinstance(s, ast.AnnAssign) and s.value is not None:
            targets(s.target, s.value)
        elif isinstance(s, ast.AugAssign):
            targets(s.target, ('aug', s))
        elif isinstance(s, (ast.Import, ast.ImportFrom)):
            for a in s.names:
                out.append(((a.asname or a.name).split('.')[0], None, s))
        elif isinstance(s, ast.Delete):
            for t in s.targets:
                targets(t, None)
        for e in ast.walk(s):
            if isinstance(e, ast.NamedExpr):
                targets(e.target, e.value)
    elif node.kind == 'test':
        for e in ast.walk(s):
            if isinstance(e, ast.NamedExpr):
                targets(e.target, e.value)
    elif node.kind == 'loop' and isinstance(s, ast.For):
        targets(s.target, ('iter', s.iter))
    elif node.kind == 'with':
        for it in s.items:
            if it.optional_vars is not None:
                targets(it.optional_vars, ('with', it.context_expr))
    elif node.kind == 'handler':
        if s.name:
            out.append((s.name, ('exc', s.type), s))
    elif node.kind == 'def':
        out.append((s.name, None, s))
    return out


class ReachingDefs:
    """IN[node.id] = {var: frozenset(def ids)}; defs[id] = (var, value, node). Parameters are defs with node=None."""

    def __init__(self, g):
        self.g = g
        self.defs = []
        self.node_defs = {}
        fn = g.fn
        a = fn.args
        entry_env = {}
        for p in a.posonlyargs + a.args + a.kwonlyargs + ([a.vararg] if a.vararg else []) + ([a.kwarg] if a.kwarg else []):
            self.defs.append((p.arg, ('param', p.arg), None))
            entry_env[p.arg] = frozenset([len(self.defs) - 1])
        for n in g.nodes:
            ds = []
            for var, val, tgt in assigned_names(n):
                self.defs.append((var, val, n))
                ds.append((var, len(self.defs) - 1))
            self.node_defs[n.id] = ds
        self.IN = {n.id: None for n in g.nodes}
        self.IN[g.entry.id] = entry_env
        work = [g.entry]
        while work:
            n = work.pop()
            env = self.IN[n.id]
            out = dict(env)
            for var, d in self.node_defs[n.id]:
                out[var] = frozenset([d])
            for m, lab in n.succ:
                src = env if lab == 'exc' else out
                # the loop variable is bound only on the T edge of a for head
                if n.kind == 'loop' and lab == 'F':
                    src = env
                cur = self.IN[m.id]
                if cur is None:
                    self.IN[m.id] = dict(src)
                    work.append(m)
                else:
                    changed = False
                    for k, v in src.items():
                        if k not in cur:
                            cur[k] = v
                            changed = True
                        elif not v <= cur[k]:
                            cur[k] = cur[k] | v
                            changed = True
                    if changed:
                        work.append(m)

    def reaching(self, node, var):
        env = self.IN.get(node.id) or {}
        return [self.defs[d] for d in sorted(env.get(var, ()))]

    def values(self, node, var, deep=False, _depth=0, _seen=None):
        """Value expressions that may define var at node (None element = unknown/opaque def).  Plain copies are looked
        through: a definition `var = other` stands for the definitions of `other` reaching that statement, and the i-th target
        of `a, b = t` for the i-th element of every tuple that defines t (helper calls expanded in place leave such copies)."""
        if not deep:
            return [d[1] for d in self.reaching(node, var)]
        out = []
        seen = _seen if _seen is not None else set()
        for d in self.reaching(node, var):
            v, dn = d[1], d[2]
            key = (id(dn), d[0])
            if _depth < 6 and dn is not None and key not in seen:
                if isinstance(v, ast.Name):
                    seen.add(key)
                    sub = self.values(dn, v.id, True, _depth + 1, seen)
                    if sub:
                        out.extend(sub)
                        continue
                if isinstance(v, tuple) and len(v) == 3 and v[0] == 'unpack' and isinstance(v[1], ast.Name):
                    seen.add(key)
                    sub = self.values(dn, v[1].id, True, _depth + 1, seen)
                    if sub:
                        for x in sub:
                            if isinstance(x, (ast.Tuple, ast.List)) and v[2] < len(x.elts):
                                e = x.elts[v[2]]
                                if isinstance(e, ast.Name):
                                    xn = node_of_expr(self.g, x)
                                    deeper = self.values(xn, e.id, True, _depth + 1, seen) if xn is not None else []
                                    out.extend(deeper or [e])
                                else:
                                    out.append(e)
                            else:
                                out.append(('unpack', x, v[2]))       # component of what the defining expression returns
                        continue
            out.append(v)
        return out


def node_of_expr(g, expr):
    """The CFG node at which an expression (sub)tree is evaluated."""
    n = expr
    while n is not None:
        ns = g.by_stmt.get(id(n))
        if ns:
            # a For statement has one 'loop' node; iter belongs to it
            return ns[0]
        n = getattr(n, '_parent', None)
    return None


def resolve(rd, node, expr, hops=4):
    """Follow plain local copies: a Name with exactly one reaching definition whose value is an expression stands for that expression
    (evaluated at the defining node).  Returns (expr, node)."""
    while isinstance(expr, ast.Name) and hops > 0 and node is not None:
        ds = rd.reaching(node, expr.id)
        if len(ds) != 1 or not isinstance(ds[0][1], ast.AST) or ds[0][2] is None:
            break
        expr, node, hops = ds[0][1], ds[0][2], hops - 1
    return expr, node
