"""Apply a unified diff (git diff output) to source texts in memory - used by the self-test to replay the kept seeded defects
(/verif/seeded) and benign changes (/verif/benign) against the tree under analysis.  Nothing is written to disk."""
import re


class PatchError(Exception):
    pass


def parse(diff_text):
    """-> {rel: [hunk]} with hunk = (old_start, [(tag, line)]) ; tag in ' ', '-', '+'.  File creations/deletions are returned with rel
    mapped to None old text (creation) - only modifications and creations of .py files under kmip/ matter here."""
    files = {}
    cur = None
    hunk = None
    new_file = False
    for line in diff_text.splitlines():
        if line.startswith('diff --git '):
            cur = None
            hunk = None
            new_file = False
            continue
        if line.startswith('new file mode'):
            new_file = True
            continue
        if line.startswith('--- '):
            continue
        if line.startswith('+++ '):
            p = line[4:].strip()
            if p == '/dev/null':
                cur = None
                continue
            if p.startswith('b/'):
                p = p[2:]
            cur = p
            files[cur] = {'new': new_file, 'hunks': []}
            continue
        m = re.match(r'@@ -(\d+)(?:,(\d+))? \+(\d+)(?:,(\d+))? @@', line)
        if m and cur is not None:
            hunk = (int(m.group(1)), [])
            files[cur]['hunks'].append(hunk)
            continue
        if hunk is not None and cur is not None and line[:1] in (' ', '-', '+'):
            hunk[1].append((line[0], line[1:]))
        elif hunk is not None and line == '':
            hunk[1].append((' ', ''))
        elif line.startswith('\\ No newline'):
            continue
    return files


def apply_to_text(text, hunks):
    lines = text.split('\n')
    out = []
    pos = 0
    for start, body in hunks:
        old = [l for t, l in body if t in (' ', '-')]
        # locate the hunk: at its stated position or nearby (the tree may have moved a little)
        want = max(start - 1, 0)
        found = None
        for delta in sorted(range(-60, 61), key=abs):
            i = want + delta
            if i < pos or i + len(old) > len(lines):
                continue
            if lines[i:i + len(old)] == old:
                found = i
                break
        if found is None:
            # trailing blank context lines are sometimes lost: retry without them
            while old and old[-1] == '' and body and body[-1] == (' ', ''):
                old = old[:-1]
                body = body[:-1]
                for delta in sorted(range(-60, 61), key=abs):
                    i = want + delta
                    if i < pos or i + len(old) > len(lines):
                        continue
                    if lines[i:i + len(old)] == old:
                        found = i
                        break
                if found is not None:
                    break
        if found is None:
            raise PatchError('hunk at line %d does not apply' % start)
        out.extend(lines[pos:found])
        for t, l in body:
            if t in (' ', '+'):
                out.append(l)
        pos = found + len(old)
    out.extend(lines[pos:])
    return '\n'.join(out)


def apply(src, diff_text):
    """-> SourceSet with the patch applied as overlays (files outside kmip/ and test files are ignored); PatchError if a hunk does not fit"""
    s = src
    for rel, f in parse(diff_text).items():
        if not rel.endswith('.py') or not rel.startswith('kmip/') or '/tests/' in rel:
            continue
        if f['new']:
            text = ''
        else:
            text = src.text(rel)
        s = s.with_overlay(rel, apply_to_text(text, f['hunks']) if f['hunks'] else text)
    return s
