"""Abstract interpretation of KmipEngine handlers (shared by C04, C08, C09, C13, C14, C15).

Finite domains (see DESIGN.md section 1.5): pie object facts (types / states / usage-mask bits / origin),
attribute-name sets, small containers and constants.  Abstract states are kept disjunctively (one per
syntactic path, capped), with a join at loop heads.  Same-class helpers are inlined context-sensitively.
The analysis produces *events* (attribute reads, policy calls, state stores, crypto calls, mutations,
commits, deletes, raises, returns) annotated with the abstract facts holding there; the rules are
predicates over these events.
"""
import ast

from .astutil import (U, dotted, walk_local, is_self_attr, enum_member, call_name, params, bind_args, short,
                      get_class, get_method)
from .cfg import CFG, expr_nodes
from .engmodel import EngineModel, ENGINE, CHOKE, LISTER, CRYPTO
from .guards import handler_catches
from .piemodel import PieModel
from .polmodel import PolicyModel, attribute_name_tag_table
from .source import AnalysisError

UNK = '<unknown>'
STATES = frozenset(['PRE_ACTIVE', 'ACTIVE', 'DEACTIVATED', 'COMPROMISED', 'DESTROYED', 'DESTROYED_COMPROMISED'])
CAP = 96
MAX_DEPTH = 3
AVF = 'kmip/core/factories/attribute_values.py'
MUTATORS = {'append', 'extend', 'pop', 'remove', 'insert', 'clear', 'sort', 'reverse', 'update', 'add', 'discard', 'setdefault'}


# ------------------------------------------------------------------ values
class Obj:
    __slots__ = ('types', 'states', 'bits', 'origin', 'op')

    def __init__(self, types, states=STATES, bits=frozenset(), origin='loaded', op=None):
        self.types, self.states, self.bits = frozenset(types), frozenset(states), frozenset(bits)
        self.origin, self.op = origin, op

    def key(self):
        return ('O', self.types, self.states, self.bits, self.origin, self.op)

    def w(self, **kw):
        d = dict(types=self.types, states=self.states, bits=self.bits, origin=self.origin, op=self.op)
        d.update(kw)
        return Obj(**d)

    def describe(self):
        return {'types': sorted(self.types), 'states': sorted(self.states), 'bits': sorted(self.bits), 'origin': self.origin, 'op': self.op}

    def __repr__(self):
        return 'Obj(%s|%s|%s|%s)' % (','.join(sorted(self.types)), '*' if self.states == STATES else ','.join(sorted(self.states)),
                                     ','.join(sorted(self.bits)), self.origin)


class Name:
    __slots__ = ('names', 'client')

    def __init__(self, names, client=False):
        self.names = frozenset(names)
        self.client = client

    def key(self):
        return ('N', self.names, self.client)

    @property
    def unknown(self):
        return UNK in self.names

    def __repr__(self):
        k = sorted(self.names - {UNK})
        return 'Name(%s%s)' % ('UNK+' if self.unknown else '', ','.join(k) if len(k) < 5 else '%d names' % len(k))


class V:
    """tag in: const(v) | tuple(vals) | list(elem, empty) | dictkeys(Name) | proj(kind, var) | policy | payload | session | crypto"""
    __slots__ = ('tag', 'a', 'b')

    def __init__(self, tag, a=None, b=None):
        self.tag, self.a, self.b = tag, a, b

    def key(self):
        def k(x):
            if isinstance(x, (Obj, Name, V)):
                return x.key()
            if isinstance(x, tuple):
                return tuple(k(y) for y in x)
            return x
        return ('V', self.tag, k(self.a), k(self.b))

    def __repr__(self):
        return 'V(%s,%r,%r)' % (self.tag, self.a, self.b)


def join_val(a, b):
    if a is None or b is None:
        return None
    if isinstance(a, Obj) and isinstance(b, Obj):
        return Obj(a.types | b.types, a.states | b.states, a.bits & b.bits, a.origin if a.origin == b.origin else 'mixed',
                   a.op if a.op == b.op else None)
    if isinstance(a, Name) and isinstance(b, Name):
        return Name(a.names | b.names, a.client or b.client)
    if isinstance(a, V) and isinstance(b, V) and a.tag == b.tag:
        if a.key() == b.key():
            return a
        if a.tag == 'list':
            if a.a is None and b.a is None:
                return V('list', None, a.b if a.b == b.b else False)
            e = a.a if b.a is None else (b.a if a.a is None else join_val(a.a, b.a))
            if e is None:
                return V('list', None, False) if (a.a is None or b.a is None) else None
            return V('list', e, a.b if a.b == b.b else False)
        if a.tag == 'dictkeys':
            return V('dictkeys', join_val(a.a, b.a))
        if a.tag == 'tuple' and len(a.a) == len(b.a):
            return V('tuple', tuple(join_val(x, y) for x, y in zip(a.a, b.a)))
    return None


class State:
    __slots__ = ('env', 'dirty', 'commits', 'after', 'corr', '_iter')

    def __init__(self, env=None, dirty=frozenset(), commits=0, after=frozenset(), corr=None):
        self.env = env or {}
        self.dirty = dirty        # origins mutated/added since the last commit
        self.commits = commits    # 0, 1, 2 (=2+)
        self.after = after        # origins mutated after a commit (kept across later commits)
        self.corr = corr or {}    # name var -> object var (applicability established between them)

    def copy(self):
        return State(dict(self.env), self.dirty, self.commits, self.after, dict(self.corr))

    def key(self):
        return (tuple(sorted((k, v.key()) for k, v in self.env.items())), self.dirty, self.commits, self.after,
                tuple(sorted(self.corr.items())))

    def summary(self):
        return {'dirty': sorted(self.dirty), 'commits': self.commits, 'mutated_after_commit': sorted(self.after)}


SOFT_CAP = 32


def tracked_signature(st):
    """what the rules distinguish states by: session bookkeeping, correlations, and the values that stand for stored objects / attribute names"""
    return (st.dirty, st.commits, st.after, tuple(sorted(st.corr.items())),
            tuple(sorted((k, v.key()) for k, v in st.env.items() if isinstance(v, (Obj, Name)) or k.startswith('__single__'))))


def join_state(a, b):
    env = {}
    for k in set(a.env) & set(b.env):
        v = join_val(a.env[k], b.env[k])
        if v is not None:
            env[k] = v
    corr = {k: v for k, v in a.corr.items() if b.corr.get(k) == v}
    return State(env, a.dirty | b.dirty, max(a.commits, b.commits), a.after | b.after, corr)


# ------------------------------------------------------------------ the model shared by all runs
class EngineAI:
    def __init__(self, src):
        self.src = src
        self.m = EngineModel(src)
        self.pie = PieModel(src)
        self.pol = PolicyModel(src)
        self.events = []
        self.bounds_hit = []
        self.max_disjuncts = {}
        m = self.m
        init = m.method('__init__')
        self.objmap = {}
        for n in walk_local(init):
            if isinstance(n, ast.Assign) and is_self_attr(n.targets[0], '_object_map'):
                if not isinstance(n.value, ast.Dict):
                    raise AnalysisError('unrecognised construct: _object_map is not a dict literal')
                for k, v in zip(n.value.keys, n.value.values):
                    em = enum_member(k, 'ObjectType')
                    if em is None:
                        raise AnalysisError('unrecognised construct: _object_map key %s' % U(k))
                    if isinstance(v, ast.Attribute):
                        if v.attr not in self.pie.classes:
                            raise AnalysisError('unrecognised construct: _object_map value %s' % U(v))
                        self.objmap[em[1]] = v.attr
        if len(self.objmap) < 7:
            raise AnalysisError('instance floor not met: _object_map has %d stored classes' % len(self.objmap))
        self.alltypes = frozenset(self.objmap)
        self.fields = {t: set(self.pie.fields(c)) for t, c in self.objmap.items()}
        self.unresolved = {}     # root handler -> guards on tracked objects the analysis could not read
        # engine fields that are named constants: stored exactly once in the class, in __init__, with an enumeration member or a display of them
        self.init_consts = {}
        _stores = {}
        for _f in self.m.cls.body:
            if isinstance(_f, ast.FunctionDef):
                for _n in walk_local(_f):
                    if is_self_attr(_n) and isinstance(_n.ctx, (ast.Store, ast.Del)):
                        _stores.setdefault(_n.attr, []).append(_f.name)
        _init = [f_ for f_ in self.m.cls.body if isinstance(f_, ast.FunctionDef) and f_.name == '__init__']
        for _n in (walk_local(_init[0]) if _init else ()):
            if isinstance(_n, ast.Assign) and len(_n.targets) == 1 and is_self_attr(_n.targets[0]) and _stores.get(_n.targets[0].attr) == ['__init__']:
                _v = _n.value
                _w = _v.args[0] if isinstance(_v, ast.Call) and call_name(_v) in ('frozenset', 'tuple', 'set', 'list') and len(_v.args) == 1 and not _v.keywords else _v
                if enum_member(_w) or (isinstance(_w, (ast.Tuple, ast.List, ast.Set)) and _w.elts and all(enum_member(x_) for x_ in _w.elts)):
                    self.init_consts[_n.targets[0].attr] = _w
        # objects that came out of a query never ran __init__
        self.loaded_fields = {t: set(self.pie.loaded_fields(c)) for t, c in self.objmap.items()}
        self.allnames = self.pol.names
        tagtab = attribute_name_tag_table(src)
        self.tag2name = {t: n for n, t in tagtab}
        self.byenum_names = frozenset(self.tag2name[t] for t in self._byenum_tags() if t in self.tag2name)
        # crypto engine signatures
        ct = src.tree(CRYPTO)
        self.crypto_cls = get_class(ct, 'CryptographyEngine')
        # which methods to inline: everything but entry plumbing and the access-control functions
        self.no_inline = {CHOKE, LISTER, '_get_object_type', '_is_allowed_by_operation_policy', 'is_allowed', 'get_relevant_policy_section',
                          '_get_enum_string', '_build_core_object', '_process_operation', '_process_batch', 'process_request',
                          '_build_response', 'build_error_response', '_set_protocol_version', '_verify_credential',
                          '_is_valid_date', '_track_date_attributes'}
        self.attr_types = {}
        self.reasons = None

    def _byenum_tags(self):
        """tags for which the by-tag attribute value factory builds a value (the FactoryModel decides, by folding the registry)"""
        from .factmodel import FactoryModel
        fm = self.src.__dict__.get('_shared_factmodel')
        if fm is None:
            fm = FactoryModel(self.src)
            self.src.__dict__['_shared_factmodel'] = fm
        out = set(t for t, res in fm.by_tag.items() if res)
        if len(out) < 20:
            raise AnalysisError('instance floor not met: by-enum attribute factory arms %d' % len(out))
        return out

    def event(self, kind, fn, node, ctx, **data):
        self.events.append(dict(kind=kind, fn=fn.name, line=getattr(node, 'lineno', 0), ctx=ctx, **data))

    def run_handler(self, name):
        fn = self.m.method(name)
        env0 = {}
        ps = params(fn)
        if ps:
            env0[ps[0]] = V('payload', self.m.handler_op().get(name))
        it = Interp(self, fn, State(env0), (), 0, False)
        outs = it.run()
        return it, outs

    @classmethod
    def shared(cls, src):
        """one interpretation per SourceSet (several properties of one run share it)"""
        ai = src.__dict__.get('_shared_ai')
        if ai is None:
            ai = cls(src)
            ai.run_all()
            src.__dict__['_shared_ai'] = ai
        return ai

    def run_all(self):
        res = {}
        for h in self.m.handlers:
            res[h] = self.run_handler(h)
        return res


# ------------------------------------------------------------------ one function activation
class Interp:
    def __init__(self, ai, fn, st0, ctx, depth, protected):
        self.ai, self.fn, self.st0, self.ctx, self.depth, self.protected = ai, fn, st0, ctx, depth, protected
        self.g = CFG(fn)
        self.returns = []       # (value, State)
        self.node = None
        self._prot_cache = {}
        self.tuple_corr = {}
        # variables that hold string/enum constants somewhere in this function: only for these is None tracked
        self.const_vars = set()
        for n in walk_local(fn):
            if isinstance(n, ast.Assign) and len(n.targets) == 1 and isinstance(n.targets[0], ast.Name):
                if (isinstance(n.value, ast.Constant) and isinstance(n.value.value, str)) or enum_member(n.value):
                    self.const_vars.add(n.targets[0].id)

    # ---- helpers
    def node_protected(self, node):
        """An exception raised at node is caught inside this function by a catch-all / AttributeError handler."""
        if node.id in self._prot_cache:
            return self._prot_cache[node.id]
        r = False
        for t in node.tries:
            for h in t.handlers:
                c = handler_catches(h)
                if '*' in c or 'AttributeError' in c:
                    r = True
        self._prot_cache[node.id] = r
        return r

    def ev_event(self, kind, node_ast, **data):
        prot = self.protected or self.node_protected(self.node)
        self.ai.event(kind, self.fn, node_ast, self.ctx + (self.fn.name,), protected=prot, depth=self.depth, **data)

    def obj_var(self, e, st):
        """expr denotes a tracked pie object bound to a variable -> (var, Obj)"""
        if isinstance(e, ast.Name) and isinstance(st.env.get(e.id), Obj):
            return e.id, st.env[e.id]
        return None, None

    # ---- expression evaluation (visits every sub-expression exactly once)
    def ev(self, e, st):
        ai = self.ai
        if e is None:
            return None
        if isinstance(e, ast.Name):
            return st.env.get(e.id)
        if isinstance(e, ast.Constant):
            if isinstance(e.value, str):
                return V('const', e.value)
            if e.value is None:
                return V('const', None)
            return None
        if isinstance(e, ast.Attribute):
            em = enum_member(e)
            if em:
                return V('const', em)
            if is_self_attr(e, '_attribute_policy'):
                return V('policy')
            if is_self_attr(e, '_data_session'):
                return V('session')
            if is_self_attr(e, '_cryptography_engine'):
                return V('crypto')
            if is_self_attr(e, '_id_placeholder') or is_self_attr(e):
                return None
            b = self.ev(e.value, st)
            if isinstance(b, Obj):
                var = e.value.id if isinstance(e.value, ast.Name) else None
                missing = sorted(t for t in b.types if e.attr not in (ai.loaded_fields if b.origin == 'loaded' else ai.fields)[t])
                self.ev_event('attr_read', e, var=var, attr=e.attr, missing=missing, obj=b.describe())
                if var:
                    if e.attr == 'cryptographic_usage_masks':
                        return V('proj', 'masks', var)
                    if e.attr == 'value':
                        return V('proj', 'value', var)
                    if e.attr in ('_object_type', 'object_type'):
                        return V('proj', 'type', var)
                    if e.attr == 'state':
                        return V('proj', 'state', var)
                    return V('proj', 'field:' + e.attr, var)
                return None
            if isinstance(b, V) and b.tag == 'proj' and b.a.startswith('elem:'):
                return None
            if isinstance(b, V) and b.tag == 'attrval_field':
                return b
            if isinstance(b, V) and b.tag == 'attrval':
                nvs = [v for v in st.env.values() if isinstance(v, Name)]
                names = None
                if nvs and all(v.names == nvs[0].names for v in nvs):
                    names = sorted(nvs[0].names)
                self.ev_event('attrval_read', e, attr=e.attr, names=names, expr=U(e))
                return V('attrval_field', e.attr)
            if e.attr == 'attribute_value':
                return V('attrval')
            if e.attr in ('current_attribute', 'new_attribute'):
                return V('attrholder')
            if e.attr == 'attribute' and isinstance(b, V) and b.tag == 'attrholder':
                return V('attrval')
            if e.attr == 'attribute_name':
                return Name(ai.allnames | {UNK}, client=True)
            if e.attr == 'attribute_names':
                return V('list', Name(ai.allnames | {UNK}, client=True), False)
            if isinstance(b, Name) and e.attr == 'value':
                return b
            return None
        if isinstance(e, ast.Call):
            return self.ev_call(e, st)
        if isinstance(e, ast.Subscript):
            b = self.ev(e.value, st)
            if not isinstance(e.slice, ast.Slice):
                self.ev(e.slice, st)
            else:
                for x in (e.slice.lower, e.slice.upper, e.slice.step):
                    self.ev(x, st)
            if isinstance(b, V):
                if b.tag == 'tuple' and isinstance(e.slice, ast.Constant) and isinstance(e.slice.value, int) and e.slice.value < len(b.a):
                    return b.a[e.slice.value]
                if b.tag == 'list':
                    if b.b is True and not isinstance(e.slice, ast.Slice):
                        # indexing a literally empty list raises IndexError: this path does not continue
                        self.ev_event('index_empty', e, expr=U(e))
                        self.dead = True
                        return None
                    return b if isinstance(e.slice, ast.Slice) else b.a
                if b.tag == 'proj' and b.a.startswith('field:'):
                    return V('proj', 'elem:' + b.a[6:], b.b) if not isinstance(e.slice, ast.Slice) else b
            return None
        if isinstance(e, ast.Tuple):
            return V('tuple', tuple(self.ev(x, st) for x in e.elts))
        if isinstance(e, ast.List):
            vs = [self.ev(x, st) for x in e.elts]
            if not vs:
                return V('list', None, True)
            j = vs[0]
            for v in vs[1:]:
                j = join_val(j, v)
            return V('list', j, 'one' if len(vs) == 1 else False)
        if isinstance(e, ast.Dict):
            ks = [self.ev(k, st) for k in e.keys]
            for v in e.values:
                self.ev(v, st)
            if not ks:
                return V('dictkeys', Name(frozenset()))
            if all(isinstance(k, Name) for k in ks):
                s = frozenset()
                for k in ks:
                    s |= k.names
                return V('dictkeys', Name(s), 'one' if len(ks) == 1 else None)
            if all(isinstance(k, V) and k.tag == 'const' and isinstance(k.a, str) for k in ks):
                return None
            return None
        if isinstance(e, (ast.ListComp, ast.GeneratorExp, ast.SetComp)):
            st2 = st.copy()
            for gen in e.generators:
                it = self.ev(gen.iter, st2)
                self.bind(gen.target, self.elem_of(it), st2)
                for c in gen.ifs:
                    self.ev(c, st2)
            self.ev(e.elt, st2)
            return V('list', None, False)
        if isinstance(e, ast.Lambda):
            return None
        if isinstance(e, ast.IfExp):
            self.ev(e.test, st)
            a, b = self.ev(e.body, st), self.ev(e.orelse, st)
            return join_val(a, b)
        # generic: evaluate children for their events
        for c in ast.iter_child_nodes(e):
            if isinstance(c, ast.expr):
                self.ev(c, st)
            elif isinstance(c, ast.keyword):
                self.ev(c.value, st)
            elif isinstance(c, ast.comprehension):
                pass
        return None

    def elem_of(self, it):
        if isinstance(it, V):
            if it.tag == 'attrval':
                return it
            if it.tag == 'list':
                return it.a
            if it.tag == 'dictkeys':
                return it.a
            if it.tag == 'proj' and it.a.startswith('field:'):
                return V('proj', 'elem:' + it.a[6:], it.b)
        return None

    def ev_call(self, e, st):
        ai = self.ai
        f = e.func
        fname = call_name(e) or ''
        # --- engine-internal calls
        if is_self_attr(f) and f.attr in ai.m.methods:
            argv = [self.ev(a, st) for a in e.args]
            kwv = {k.arg: self.ev(k.value, st) for k in e.keywords}
            if f.attr == CHOKE:
                opm = enum_member(e.args[1]) if len(e.args) > 1 else None
                return Obj(ai.alltypes, STATES, frozenset(), 'loaded', opm[1] if opm else None)
            if f.attr == LISTER:
                opm = enum_member(e.args[0]) if e.args else None
                return V('list', Obj(ai.alltypes, STATES, frozenset(), 'loaded', opm[1] if opm else None), False)
            if f.attr == '_build_core_object':
                return V('core')
            if f.attr in ai.no_inline:
                return None
            return self.inline(e, f.attr, argv, kwv, st)
        if isinstance(f, ast.Attribute) and is_self_attr(f.value, '_logger'):
            parts = []
            for a in list(e.args) + [k.value for k in e.keywords]:
                parts += self.secret_parts(a, st)
            self.ev_event('log', e, level=f.attr, secrets=parts)
        # receiver first (events on attribute reads of the receiver)
        recv = None
        if isinstance(f, ast.Attribute):
            recv = self.ev(f.value, st)
        argv = [self.ev(a, st) for a in e.args]
        kwv = {k.arg: self.ev(k.value, st) for k in e.keywords}
        if isinstance(f, ast.Attribute):
            # policy queries
            if isinstance(recv, V) and recv.tag == 'policy':
                if f.attr == 'get_all_attribute_names':
                    return V('list', Name(ai.allnames), False)
                if f.attr.startswith('is_attribute') and e.args:
                    nv = argv[0]
                    self.ev_event('policy_call', e, method=f.attr, deref=f.attr in ai.pol.deref,
                                  tracked=isinstance(nv, Name), unknown=(nv.unknown if isinstance(nv, Name) else None),
                                  names=(sorted(nv.names - {UNK}) if isinstance(nv, Name) else None), arg=U(e.args[0]))
                    # after a dereferencing query returned normally the name is a known rule key
                    if f.attr in ai.pol.deref and isinstance(nv, Name) and nv.unknown and isinstance(e.args[0], ast.Name):
                        st.env[e.args[0].id] = Name(nv.names - {UNK}, nv.client)
                    if isinstance(e.args[0], ast.Name) and isinstance(nv, Name) and len(e.args) == 1:
                        return V('polres', f.attr, e.args[0].id)
                return None
            if isinstance(recv, V) and recv.tag == 'session':
                if f.attr == 'commit':
                    self.ev_event('commit', e, state=st.summary())
                    st.commits = min(2, st.commits + 1)
                    st.dirty = frozenset()
                elif f.attr == 'add':
                    o = argv[0] if argv else None
                    self.ev_event('add', e, state=st.summary(), obj=o.describe() if isinstance(o, Obj) else None)
                    st.dirty = st.dirty | {'added'}
                    if st.commits:
                        st.after = st.after | {'added'}
                elif f.attr == 'query':
                    return V('query')
                return None
            if isinstance(recv, V) and recv.tag == 'query':
                if f.attr == 'delete':
                    loaded = {k: v.describe() for k, v in st.env.items() if isinstance(v, Obj) and v.origin == 'loaded'}
                    self.ev_event('delete', e, state=st.summary(), loaded=loaded)
                    st.dirty = st.dirty | {'deleted'}
                    if st.commits:
                        st.after = st.after | {'deleted'}
                    return None
                return V('query')
            if isinstance(recv, V) and recv.tag == 'crypto':
                meth = get_method(ai.crypto_cls, f.attr, optional=True)
                bound = {}
                if meth is not None:
                    for p, a in bind_args(meth, e).items():
                        bound[p] = a
                args = {}
                for p, a in bound.items():
                    v = self.ev_quiet(a, st)
                    if isinstance(v, V) and v.tag == 'proj' and v.a == 'value' and isinstance(st.env.get(v.b), Obj):
                        args[p] = dict(var=v.b, **st.env[v.b].describe())
                self.ev_event('crypto_call', e, method=f.attr, resolved=meth is not None, key_args=args, bound={p: U(a) for p, a in bound.items()})
                return V('cryptoresult')
            # mutators on collections of pie objects / containers
            if f.attr in MUTATORS:
                if isinstance(recv, V) and recv.tag == 'proj' and (recv.a.startswith('field:') or recv.a.startswith('elem:')):
                    self.mutation(e, recv.b, recv.a.split(':', 1)[1], f.attr, e.args[0] if e.args else None, st)
                    return None
                if isinstance(f.value, ast.Name) and isinstance(recv, V):
                    var = f.value.id
                    if recv.tag == 'list' and f.attr == 'append' and argv:
                        a = argv[0]
                        if recv.a is None:
                            st.env[var] = V('list', a, False) if a is not None else V('list', None, False)
                        else:
                            j = join_val(recv.a, a) if a is not None else None
                            st.env[var] = V('list', j, False)
                        return None
                    if recv.tag == 'dictkeys' and f.attr == 'update' and e.args:
                        a = e.args[0]
                        k = None
                        if isinstance(a, ast.List) and a.elts and isinstance(a.elts[0], ast.Tuple) and isinstance(argv[0], V) and isinstance(argv[0].a, V):
                            k = argv[0].a.a[0] if argv[0].a.tag == 'tuple' else None
                        if isinstance(k, Name):
                            st.env[var] = V('dictkeys', Name(recv.a.names | k.names))
                        else:
                            st.env[var] = V('dictkeys', Name(recv.a.names | {UNK}))
                        return None
                return None
            if f.attr == 'get' and isinstance(recv, V) and recv.tag == 'dictkeys':
                return None
            if f.attr == 'get' and isinstance(recv, V) and recv.tag == 'cryptoresult':
                return recv
            if f.attr == 'keys' and isinstance(recv, V) and recv.tag == 'dictkeys':
                return V('list', recv.a, False)
            if f.attr == 'count' and isinstance(recv, V) and recv.tag == 'proj':
                return None
            if f.attr == 'convert' and not isinstance(recv, (Obj,)) and 'factory' in U(f.value).lower():
                return Obj(ai.alltypes, frozenset(['PRE_ACTIVE']), frozenset(), 'fresh')
        # --- free functions / constructors
        if fname == 'enums.convert_attribute_tag_to_name':
            self.ev_event('tag_to_name', e, arg=U(e.args[0]) if e.args else '')
            known = ai.byenum_names & ai.allnames
            # decodable attributes without a rule-table entry behave like unknown names in the policy lookups
            return Name(known | ({UNK} if ai.byenum_names - ai.allnames else set()), client=True)
        if fname in ('copy.deepcopy', 'copy.copy') and argv:
            v = argv[0]
            if isinstance(v, Obj):
                return v.w(origin='copy')
            return v
        if fname in ('six.iteritems',) and argv:
            v = argv[0]
            if isinstance(v, V) and v.tag == 'dictkeys':
                return V('list', V('tuple', (v.a, V('attrval'))), 'one' if v.b == 'one' else False)
            return None
        if fname in ('list', 'sorted', 'reversed', 'tuple') and e.args:
            v = argv[0]
            if isinstance(v, V) and v.tag == 'list':
                return v
            return None
        if fname == 'list' and not e.args:
            return V('list', None, True)
        if fname == 'dict' and not e.args:
            return V('dictkeys', Name(frozenset()))
        if fname in ('enumerate',) and argv:
            v = argv[0]
            el = self.elem_of(v) if isinstance(v, V) else None
            return V('list', V('tuple', (None, el)), False)
        if fname in ('getattr', 'hasattr', 'setattr') and len(e.args) >= 2:
            ov, o = self.obj_var(e.args[0], st)
            fld = argv[1]
            if o is not None and isinstance(fld, V) and fld.tag == 'const' and isinstance(fld.a, str):
                if fname == 'getattr' and len(e.args) >= 3:
                    pass       # a default is supplied: no AttributeError
                elif fname == 'getattr':
                    missing = sorted(t for t in o.types if fld.a not in (ai.loaded_fields if o.origin == 'loaded' else ai.fields)[t])
                    self.ev_event('attr_read', e, var=ov, attr=fld.a, missing=missing, obj=o.describe())
                elif fname == 'setattr':
                    self.mutation(e, ov, fld.a, 'setattr', e.args[2] if len(e.args) > 2 else None, st)
                if fname == 'getattr' and ov:
                    # the value read is the same projection as obj.<field> (with the default for classes lacking it)
                    kind = {'cryptographic_usage_masks': 'masks', 'value': 'value', '_object_type': 'type', 'object_type': 'type', 'state': 'state'}.get(fld.a, 'field:' + fld.a)
                    return V('proj', kind, ov)
            elif o is not None and fname in ('getattr', 'setattr'):
                self.ev_event('dynamic_field', e, var=ov, call=fname, field=U(e.args[1]))
                if fname == 'setattr':
                    self.mutation(e, ov, '<dynamic>', 'setattr', e.args[2] if len(e.args) > 2 else None, st)
            return None
        if fname.startswith('objects.') and fname.split('.', 1)[1] in ai.pie.classes:
            cn = fname.split('.', 1)[1]
            ts = [t for t, c in ai.objmap.items() if c == cn or ai.pie.issub(c, cn)]
            exact = [t for t, c in ai.objmap.items() if c == cn]
            if exact or ts:
                has_state = any('state' in ai.fields[t] for t in (exact or ts))
                return Obj(exact or ts, frozenset(['PRE_ACTIVE']) if has_state else STATES, frozenset(), 'fresh')
            return V('piepart', cn)
        return None

    SAFE_OBJ_ATTRS = {'unique_identifier', 'object_type', '_object_type', 'state', 'names', 'operation_policy_name', 'cryptographic_algorithm',
                      'cryptographic_length', 'key_format_type', 'certificate_type', 'initial_date', 'sensitive', 'cryptographic_usage_masks',
                      'data_type', 'opaque_type', 'name', '_owner'}

    def secret_parts(self, e, st):
        """Sub-expressions of e whose abstract value is secret-bearing: a whole managed object (its repr prints the value), an object's
        .value, a crypto-engine result, a whole payload / core secret.  Sanitised: len(), type(), safe attributes of an object."""
        out = []

        def walk(x):
            if isinstance(x, ast.Call):
                fn = call_name(x) or ''
                if fn in ('len', 'type', 'id', 'isinstance', 'bool'):
                    return
                if isinstance(x.func, ast.Attribute):
                    walk(x.func.value)
                for a in x.args:
                    walk(a)
                for k in x.keywords:
                    walk(k.value)
                return
            if isinstance(x, ast.Attribute):
                v = self.ev_quiet(x, st)
                b = self.ev_quiet(x.value, st)
                if isinstance(b, Obj):
                    if x.attr in self.SAFE_OBJ_ATTRS:
                        return
                    out.append(('field %s of a managed object' % x.attr, U(x)))
                    return
                if isinstance(v, V) and v.tag in ('cryptoresult', 'core'):
                    out.append((v.tag, U(x)))
                    return
                if isinstance(b, V) and b.tag == 'payload' and x.attr in ('data', 'iv_counter_nonce', 'auth_additional_data', 'auth_tag', 'signature_data', 'secret', 'managed_object',
                                                                          'derivation_parameters', 'mac_data', 'credential'):
                    out.append(('payload field %s' % x.attr, U(x)))
                    return
                if isinstance(b, V) and b.tag == 'payload':
                    return          # a non-secret field of the payload (identifiers, enumerations, counts)
                walk(x.value)
                return
            if isinstance(x, ast.Name):
                v = st.env.get(x.id)
                if isinstance(v, Obj):
                    out.append(('whole managed object (repr/str print the value)', x.id))
                elif isinstance(v, V) and v.tag == 'proj' and v.a == 'value':
                    out.append(('value of a managed object', x.id))
                elif isinstance(v, V) and v.tag in ('cryptoresult', 'core', 'payload'):
                    out.append((v.tag, x.id))
                elif isinstance(v, V) and v.tag == 'list' and isinstance(v.a, Obj):
                    out.append(('list of managed objects', x.id))
                return
            if isinstance(x, ast.Lambda):
                return
            for c in ast.iter_child_nodes(x):
                if isinstance(c, (ast.expr, ast.keyword, ast.comprehension)):
                    walk(c.value if isinstance(c, ast.keyword) else c)
        walk(e)
        return out

    def ev_quiet(self, e, st):
        """Evaluate without emitting events (second look at an already evaluated expression)."""
        n = len(self.ai.events)
        v = self.ev(e, st.copy())
        del self.ai.events[n:]
        return v

    def value_sources(self, value_ast, st):
        """Classify the variables a stored value is computed from: attrval (request attribute value) / other."""
        out = []
        if value_ast is None:
            return out
        funcs = set()
        for n in ast.walk(value_ast):
            if isinstance(n, ast.Call):
                f = n.func
                while isinstance(f, ast.Attribute):
                    f = f.value
                if isinstance(f, ast.Name):
                    funcs.add(id(f))
        bound = set()
        for n in ast.walk(value_ast):
            if isinstance(n, ast.comprehension):
                for t in ast.walk(n.target):
                    if isinstance(t, ast.Name):
                        bound.add(t.id)
        for n in ast.walk(value_ast):
            if isinstance(n, ast.Name) and isinstance(n.ctx, ast.Load) and id(n) not in funcs and n.id not in bound:
                v = st.env.get(n.id)
                if isinstance(v, V) and v.tag in ('attrval', 'attrval_field'):
                    out.append((n.id, 'attrval'))
                elif isinstance(v, V) and v.tag == 'list' and isinstance(v.a, V) and v.a.tag in ('attrval', 'attrval_field'):
                    out.append((n.id, 'attrval'))
                else:
                    out.append((n.id, 'other:%s' % (v.tag if isinstance(v, V) else type(v).__name__)))
        return out

    def mutation(self, node_ast, var, field, how, value_ast, st):
        o = st.env.get(var)
        origin = o.origin if isinstance(o, Obj) else 'unknown'
        nvs = [v for v in st.env.values() if isinstance(v, Name)]
        names = sorted(nvs[0].names) if nvs and all(v.names == nvs[0].names for v in nvs) else None
        self.ev_event('mutation', node_ast, var=var, field=field, how=how, origin=origin, value=U(value_ast) if value_ast is not None else None,
                      state=st.summary(), obj=o.describe() if isinstance(o, Obj) else None, names=names,
                      sources=self.value_sources(value_ast, st))
        if origin in ('copy',):
            return
        st.dirty = st.dirty | {origin}
        if st.commits:
            st.after = st.after | {origin}

    # ---- inlining
    def inline(self, call, name, argv, kwv, st):
        ai = self.ai
        callee = ai.m.methods[name]
        if self.depth >= MAX_DEPTH:
            ai.bounds_hit.append('inline depth at %s -> %s' % (self.fn.name, name))
            return None
        ps = params(callee)
        env0 = {}
        amap = {}
        for p, a, v in zip(ps, call.args, argv):
            if v is not None:
                env0[p] = v
            amap[p] = a
        for k in call.keywords:
            if kwv.get(k.arg) is not None:
                env0[k.arg] = kwv[k.arg]
            amap[k.arg] = k.value
        # rewrite projections / correlations that refer to caller variables
        c2p = {a.id: p for p, a in amap.items() if isinstance(a, ast.Name)}

        def remap(v):
            if isinstance(v, V):
                if v.tag == 'proj':
                    return V('proj', v.a, c2p[v.b]) if v.b in c2p else None
                if v.tag == 'tuple':
                    return V('tuple', tuple(remap(x) for x in v.a))
                if v.tag == 'list':
                    return V('list', remap(v.a), v.b)
            return v
        env0 = {k: remap(v) for k, v in env0.items()}
        env0 = {k: v for k, v in env0.items() if v is not None}
        corr0 = {}
        for nv, ov in st.corr.items():
            if nv in c2p and ov in c2p:
                corr0[c2p[nv]] = c2p[ov]
        # tuple arguments carrying a correlated name: (attribute_name, value) built from caller locals
        for p, a in amap.items():
            if isinstance(a, ast.Tuple):
                pass
        prot = self.protected or self.node_protected(self.node)
        sub = Interp(ai, callee, State(env0, st.dirty, st.commits, st.after, corr0), self.ctx + (self.fn.name,), self.depth + 1, prot)
        for p, a in amap.items():
            if isinstance(a, ast.Tuple):
                # remember which tuple positions are correlated with which object parameter
                for i, el in enumerate(a.elts):
                    if isinstance(el, ast.Name) and el.id in st.corr and st.corr[el.id] in c2p:
                        sub.tuple_corr[(p, i)] = c2p[st.corr[el.id]]
        outs = sub.run()
        if not outs and not sub.returns:
            # callee never returns normally on this state
            self.dead = True
            return V('noreturn')
        rv = None
        first = True
        dirty, commits, after = st.dirty, st.commits, st.after
        # correlation between "returns None" and the attribute-name parameter (getter arms returning constant None)
        split = None
        for p, a in amap.items():
            if isinstance(a, ast.Name) and isinstance(st.env.get(a.id), Name):
                nn, on = set(), set()
                for v, s2 in sub.returns:
                    pv_ = s2.env.get(p)
                    if not isinstance(pv_, Name):
                        nn = on = None
                        break
                    if isinstance(v, V) and v.tag == 'const' and v.a is None:
                        nn |= pv_.names
                    else:
                        on |= pv_.names
                if nn and on is not None and nn != on:
                    split = (a.id, frozenset(nn), frozenset(on))
        for v, s2 in sub.returns:
            rv = v if first else join_val(rv, v)
            first = False
            dirty |= s2.dirty
            commits = max(commits, s2.commits)
            after |= s2.after
            # refinements of objects passed by name flow back (same object)
        st.dirty, st.commits, st.after = dirty, commits, after
        # refinements of objects passed by name flow back: the parameter denotes the caller's object for the whole call
        # unless the callee rebinds the parameter name; the caller continues with the join over the normal returns
        rebound = {n.id for n in ast.walk(callee) if isinstance(n, ast.Name) and isinstance(n.ctx, (ast.Store, ast.Del))}
        for p, a in amap.items():
            if isinstance(a, ast.Name) and p not in rebound and isinstance(st.env.get(a.id), Obj) and sub.returns:
                j = None
                for i, (v, s2) in enumerate(sub.returns):
                    o2 = s2.env.get(p)
                    if not isinstance(o2, Obj):
                        j = None
                        break
                    j = o2 if i == 0 else join_val(j, o2)
                if isinstance(j, Obj):
                    o0 = st.env[a.id]
                    # only narrowing is taken over (types/states shrink, known bits grow); stores inside the callee
                    # (a new state) are taken over as they are
                    st.env[a.id] = j.w(origin=o0.origin, op=o0.op)
        if split is not None and not (isinstance(rv, V) and rv.tag == 'proj'):
            return V('retsplit', split, None)
        if isinstance(rv, V) and rv.tag == 'proj':
            # projections of callee parameters -> caller variables
            p2c = {p: a.id for p, a in amap.items() if isinstance(a, ast.Name)}
            rv = V('proj', rv.a, p2c[rv.b]) if rv.b in p2c else None
        return rv

    # ---- binding
    def bind(self, target, v, st):
        if isinstance(target, ast.Name):
            if isinstance(v, V) and v.tag == 'const' and v.a is None and target.id not in self.const_vars:
                v = None
            if v is None:
                st.env.pop(target.id, None)
            else:
                st.env[target.id] = v
            st.corr.pop(target.id, None)
            for k in [k for k, o in st.corr.items() if o == target.id]:
                st.corr.pop(k)
            # projections of / policy results about an overwritten variable die
            for k in [k for k, x in st.env.items() if isinstance(x, V) and x.tag in ('proj', 'polres') and x.b == target.id and k != target.id]:
                st.env.pop(k)
            for k in [k for k, x in st.env.items() if isinstance(x, V) and x.tag == 'retsplit' and x.a[0] == target.id and k != target.id]:
                st.env.pop(k)
        elif isinstance(target, (ast.Tuple, ast.List)):
            for i, t in enumerate(target.elts):
                if isinstance(v, V) and v.tag == 'tuple' and i < len(v.a):
                    self.bind(t, v.a[i], st)
                else:
                    self.bind(t, None, st)
        elif isinstance(target, ast.Attribute):
            ov, o = self.obj_var(target.value, st)
            if o is not None:
                if target.attr == 'state':
                    c = v.a[1] if isinstance(v, V) and v.tag == 'const' and isinstance(v.a, tuple) and v.a[0] == 'State' else None
                    rs_ = st.env.get('#reason')
                    self.ev_event('state_store', target, var=ov, before=sorted(o.states), target=c, origin=o.origin,
                                  reasons=(sorted(rs_.a[1]) if isinstance(rs_, V) and rs_.tag == 'const' and isinstance(rs_.a, tuple) and rs_.a[0] == 'ReasonSet' else None),
                                  missing=sorted(t for t in o.types if 'state' not in self.ai.fields[t]))
                    st.env[ov] = o.w(states=frozenset([c]) if c else STATES)
                self.mutation(target, ov, target.attr, 'store', getattr(target._parent, 'value', None), st)
            else:
                if is_self_attr(target):
                    val = getattr(target._parent, 'value', None)
                    self.ev_event('engine_field_store', target, field=target.attr, secrets=self.secret_parts(val, st) if val is not None else [])
                b = self.ev_quiet(target.value, st)
                if isinstance(b, V) and b.tag == 'proj' and (b.a.startswith('elem:') or b.a.startswith('field:')):
                    self.mutation(target, b.b, b.a.split(':', 1)[1] + '.' + target.attr, 'store', getattr(target._parent, 'value', None), st)
        elif isinstance(target, ast.Subscript):
            b = self.ev_quiet(target.value, st)
            if isinstance(b, V) and b.tag == 'proj' and (b.a.startswith('field:') or b.a.startswith('elem:')):
                self.mutation(target, b.b, b.a.split(':', 1)[1], 'setslice' if isinstance(target.slice, ast.Slice) else 'setitem', getattr(target._parent, 'value', None), st)
            elif isinstance(target.value, ast.Name) and isinstance(b, V) and b.tag == 'dictkeys':
                k = self.ev_quiet(target.slice, st)
                st.env[target.value.id] = V('dictkeys', Name(b.a.names | (k.names if isinstance(k, Name) else {UNK})))

    # ---- refinement on branch edges
    def refine(self, test, st, pol):
        ai = self.ai
        st = st.copy()
        env = st.env
        if isinstance(test, ast.Name):
            v = env.get(test.id)
            if isinstance(v, V) and v.tag == 'list':
                if v.b is True and pol:
                    return None        # literally empty list is falsy
            if isinstance(v, V) and v.tag == 'const':
                truth = bool(v.a)
                if truth != pol:
                    return None
            if isinstance(v, V) and v.tag == 'polres' and isinstance(env.get(v.b), Name):
                nv = env[v.b]
                R = ai.pol.rules
                fld = {'is_attribute_multivalued': 'multivalued', 'is_attribute_modifiable_by_client': 'modifiable_by_client',
                       'is_attribute_deletable_by_client': 'deletable_by_client'}.get(v.a)
                if fld:
                    names = frozenset(x for x in nv.names if x == UNK or R[x][fld] == pol)
                    if not names:
                        return None
                    env[v.b] = Name(names, nv.client)
            return st
        if isinstance(test, ast.Call):
            f = test.func
            fs = call_name(test) or ''
            if fs == 'hasattr' and len(test.args) == 2:
                ov, o = self.obj_var(test.args[0], st)
                fv = self.ev_quiet(test.args[1], st)
                if o is not None and isinstance(fv, V) and fv.tag == 'const' and isinstance(fv.a, str):
                    fld = fv.a
                    ts = frozenset(t for t in o.types if (fld in ai.fields[t]) == pol)
                    if not ts:
                        return None
                    env[ov] = o.w(types=ts)
                return st
            if fs == 'isinstance' and len(test.args) == 2:
                ov, o = self.obj_var(test.args[0], st)
                cls = test.args[1]
                cn = cls.attr if isinstance(cls, ast.Attribute) else (cls.id if isinstance(cls, ast.Name) else None)
                if o is not None and cn in ai.pie.classes:
                    ts = frozenset(t for t in o.types if ai.pie.issub(ai.objmap[t], cn) == pol)
                    if not ts:
                        return None
                    env[ov] = o.w(types=ts)
                return st
            if isinstance(f, ast.Attribute) and f.attr.startswith('is_attribute') and test.args:
                recv = self.ev_quiet(f.value, st)
                a = test.args[0]
                v = env.get(a.id) if isinstance(a, ast.Name) else None
                if isinstance(recv, V) and recv.tag == 'policy' and isinstance(v, Name):
                    R = ai.pol.rules
                    names = v.names
                    m_ = f.attr
                    if m_ == 'is_attribute_supported':
                        names = frozenset(x for x in names if x != UNK) if pol else names
                    elif m_ == 'is_attribute_deprecated':
                        names = frozenset(x for x in names if x == UNK or (R[x]['version_deprecated'] is not None) or not pol)
                    elif m_ == 'is_attribute_modifiable_by_client':
                        names = frozenset(x for x in names if x == UNK or R[x]['modifiable_by_client'] == pol)
                    elif m_ == 'is_attribute_deletable_by_client':
                        names = frozenset(x for x in names if x == UNK or R[x]['deletable_by_client'] == pol)
                    elif m_ == 'is_attribute_multivalued':
                        names = frozenset(x for x in names if x == UNK or R[x]['multivalued'] == pol)
                    elif m_ == 'is_attribute_applicable_to_object_type' and len(test.args) == 2:
                        ot = self.ev_quiet(test.args[1], st)
                        ovar = ot.b if isinstance(ot, V) and ot.tag == 'proj' and ot.a == 'type' else None
                        if ovar and isinstance(env.get(ovar), Obj):
                            o = env[ovar]
                            if pol:
                                names = frozenset(x for x in names if x == UNK or (R[x]['applies_to_object_types'] & o.types))
                                known = names - {UNK}
                                if len(known) == 1 and UNK not in names:
                                    nm = next(iter(known))
                                    ts = o.types & R[nm]['applies_to_object_types']
                                    if not ts:
                                        return None
                                    env[ovar] = o.w(types=ts)
                                else:
                                    st.corr[a.id] = ovar
                            else:
                                names = frozenset(x for x in names if x == UNK or (o.types - R[x]['applies_to_object_types']))
                    if not names:
                        return None
                    env[a.id] = Name(names, v.client)
                return st
            return st
        if isinstance(test, ast.Compare) and len(test.ops) == 1:
            l, op, r = test.left, test.ops[0], test.comparators[0]
            if is_self_attr(r) and r.attr in ai.init_consts:
                r = ai.init_consts[r.attr]
            if is_self_attr(l) and l.attr in ai.init_consts:
                l = ai.init_consts[l.attr]
            # the revocation reason of this request: every comparison with RevocationReasonCode members narrows the set of reasons
            # possible on the path (recorded with each state store: COMPROMISED only under the compromise reasons)
            rset = None
            rm = enum_member(r, 'RevocationReasonCode')
            if rm and isinstance(op, (ast.Is, ast.Eq, ast.IsNot, ast.NotEq)):
                rset, positive = {rm[1]}, isinstance(op, (ast.Is, ast.Eq)) == pol
            elif isinstance(r, (ast.List, ast.Tuple, ast.Set)) and r.elts and all(enum_member(x, 'RevocationReasonCode') for x in r.elts) and isinstance(op, (ast.In, ast.NotIn)):
                rset, positive = {enum_member(x)[1] for x in r.elts}, isinstance(op, ast.In) == pol
            if rset is not None:
                self.ev_quiet(l, st)
                if ai.reasons is None:
                    from .polmodel import enum_table
                    ai.reasons = frozenset(enum_table(ai.src, 'RevocationReasonCode'))
                cur = env.get('#reason')
                cur = cur.a[1] if isinstance(cur, V) and cur.tag == 'const' and isinstance(cur.a, tuple) and cur.a[0] == 'ReasonSet' else ai.reasons
                new_ = (cur & rset) if positive else (cur - rset)
                if not new_:
                    return None
                env['#reason'] = V('const', ('ReasonSet', frozenset(new_)))
                return st
            lv = self.ev_quiet(l, st)
            rv = self.ev_quiet(r, st)
            if isinstance(r, ast.Constant) and r.value is None and isinstance(lv, V) and lv.tag == 'retsplit' and isinstance(op, (ast.Is, ast.IsNot, ast.Eq, ast.NotEq)):
                cv, nn, on = lv.a
                isnone_branch = isinstance(op, (ast.Is, ast.Eq)) == pol
                cur = env.get(cv)
                if isinstance(cur, Name):
                    names = cur.names & (nn if isnone_branch else on)
                    if not names:
                        return None
                    env[cv] = Name(names, cur.client)
                return st
            if isinstance(r, ast.Constant) and r.value is None and isinstance(lv, V) and lv.tag == 'const' and isinstance(op, (ast.Is, ast.IsNot, ast.Eq, ast.NotEq)):
                isnone = lv.a is None
                want = isinstance(op, (ast.Is, ast.Eq)) == pol
                return st if isnone == want else None
            # name == 'Const' / enums.AttributeType.X.value
            if isinstance(lv, Name) and isinstance(l, ast.Name) and isinstance(op, (ast.Eq, ast.NotEq)):
                c = None
                if isinstance(r, ast.Constant) and isinstance(r.value, str):
                    c = r.value
                elif isinstance(r, ast.Attribute) and r.attr == 'value' and enum_member(r.value, 'AttributeType'):
                    c = self.attr_type_value(enum_member(r.value, 'AttributeType')[1])
                if c is not None:
                    eq = isinstance(op, ast.Eq) == pol
                    names = frozenset(x for x in lv.names if ((x == c) == eq) or (x == UNK and not eq))
                    if not names:
                        return None
                    env[l.id] = Name(names, lv.client)
                    ovar = st.corr.get(l.id)
                    if eq and ovar and isinstance(env.get(ovar), Obj) and c in ai.pol.rules:
                        o = env[ovar]
                        ts = o.types & ai.pol.rules[c]['applies_to_object_types']
                        if not ts:
                            return None
                        env[ovar] = o.w(types=ts)
                    return st
            if isinstance(lv, V) and lv.tag == 'proj' and isinstance(env.get(lv.b), Obj):
                o = env[lv.b]
                if lv.a == 'type':
                    vals = None
                    em = enum_member(r, 'ObjectType') or self._const_member(rv, 'ObjectType')
                    if em:
                        vals = {em[1]}
                    elif isinstance(r, (ast.List, ast.Tuple, ast.Set)):
                        ms = [enum_member(x, 'ObjectType') for x in r.elts]
                        if all(ms):
                            vals = {x[1] for x in ms}
                    if vals is not None and isinstance(op, (ast.Eq, ast.NotEq, ast.Is, ast.IsNot, ast.In, ast.NotIn)):
                        eq = isinstance(op, (ast.Eq, ast.Is, ast.In)) == pol
                        ts = frozenset(t for t in o.types if (t in vals) == eq)
                        if not ts:
                            return None
                        env[lv.b] = o.w(types=ts)
                    elif vals is None and not (isinstance(r, ast.Constant) and r.value is None):
                        self.unresolved_guard(test, 'object type compared with a value that is not a constant here')
                    return st
                if lv.a == 'state':
                    em = enum_member(r, 'State') or self._const_member(rv, 'State')
                    if em and isinstance(op, (ast.Eq, ast.NotEq, ast.Is, ast.IsNot)):
                        eq = isinstance(op, (ast.Eq, ast.Is)) == pol
                        ss = frozenset(s for s in o.states if (s == em[1]) == eq)
                        if not ss:
                            return None
                        ts = o.types
                        if eq:
                            # an object whose state equals a State member has a state (matters when it was read with getattr(o, 'state', None))
                            ts = frozenset(t for t in o.types if 'state' in ai.fields[t]) or o.types
                        env[lv.b] = o.w(states=ss, types=ts)
                    elif isinstance(r, (ast.List, ast.Tuple, ast.Set)) and isinstance(op, (ast.In, ast.NotIn)):
                        ms = [enum_member(x, 'State') for x in r.elts]
                        if all(ms):
                            eq = isinstance(op, ast.In) == pol
                            ss = frozenset(s for s in o.states if (s in {x[1] for x in ms}) == eq)
                            if not ss:
                                return None
                            env[lv.b] = o.w(states=ss)
                        else:
                            self.unresolved_guard(test, 'state compared with values that are not constants here')
                    elif not (isinstance(r, ast.Constant) and r.value is None) and not em:
                        self.unresolved_guard(test, 'state compared with a value that is not a constant here')
                    return st
            # name in/not in (<name constants>): a lookup table's keys written out
            if isinstance(op, (ast.In, ast.NotIn)) and isinstance(lv, Name) and isinstance(l, ast.Name) and isinstance(r, (ast.Tuple, ast.List, ast.Set)) and r.elts:
                consts = []
                for x_ in r.elts:
                    if isinstance(x_, ast.Constant) and isinstance(x_.value, str):
                        consts.append(x_.value)
                    elif isinstance(x_, ast.Attribute) and x_.attr == 'value' and enum_member(x_.value, 'AttributeType'):
                        consts.append(self.attr_type_value(enum_member(x_.value, 'AttributeType')[1]))
                    else:
                        consts = None
                        break
                if consts is not None:
                    member = isinstance(op, ast.In) == pol
                    cs = set(consts)
                    names = frozenset(x for x in lv.names if (x in cs) == member or (x == UNK and not member))
                    if not names:
                        return None
                    env[l.id] = Name(names, lv.client)
                    return st
            # name in/not in policy.get_all_attribute_names(): membership in the rule table
            if isinstance(op, (ast.In, ast.NotIn)) and isinstance(lv, Name) and isinstance(l, ast.Name) and isinstance(rv, V) and rv.tag == 'list' \
                    and isinstance(rv.a, Name) and rv.a.names == ai.allnames:
                member = isinstance(op, ast.In) == pol
                names = frozenset(x for x in lv.names if (x != UNK) == member) if member else frozenset(x for x in lv.names if x == UNK)
                if not names:
                    return None
                env[l.id] = Name(names, lv.client)
                return st
            # MASK in/not in obj.cryptographic_usage_masks
            if isinstance(op, (ast.In, ast.NotIn)) and isinstance(rv, V) and rv.tag == 'proj' and rv.a == 'masks' and isinstance(env.get(rv.b), Obj):
                c = None
                if isinstance(lv, V) and lv.tag == 'const' and isinstance(lv.a, tuple) and lv.a[0] == 'CryptographicUsageMask':
                    c = lv.a[1]
                if c and (isinstance(op, ast.In) == pol):
                    o = env[rv.b]
                    env[rv.b] = o.w(bits=o.bits | {c})
                if not c:
                    self.unresolved_guard(test, 'usage mask membership of a value that is not a constant here')
                return st
        return st

    def unresolved_guard(self, test, what):
        """a test on the type / state / usage mask of a tracked object whose other operand the analysis cannot resolve to constants: nothing
        is refined, so what the rules conclude about the object further down this handler is weaker than what the code establishes - the
        rules that would report there end with ANALYSIS-ERROR instead (a guard that cannot be read is not a missing guard)"""
        root = (self.ctx + (self.fn.name,))[0]
        self.ai.unresolved.setdefault(root, [])
        txt = 'line %s: %s (%s)' % (getattr(test, 'lineno', '?'), U(test)[:100], what)
        if txt not in self.ai.unresolved[root]:
            self.ai.unresolved[root].append(txt)

    @staticmethod
    def _const_member(v, enum_cls):
        """abstract constant holding a member of enum_cls (e.g. a parameter bound to enums.State.ACTIVE at the call site)"""
        if isinstance(v, V) and v.tag == 'const' and isinstance(v.a, tuple) and len(v.a) == 2 and v.a[0] == enum_cls:
            return v.a
        return None

    def attr_type_value(self, member):
        ai = self.ai
        if not ai.attr_types:
            from .polmodel import enum_table
            ai.attr_types = enum_table(ai.src, 'AttributeType')
        return ai.attr_types.get(member)

    # ---- transfer
    def transfer(self, node, st):
        self.node = node
        self.dead = False
        s = node.stmt
        st = st.copy()
        if s is None or node.kind in ('dispatch', 'handler', 'def', 'join'):
            if node.kind == 'handler' and s.name:
                st.env.pop(s.name, None)
            return st
        if node.kind == 'test':
            self.ev(s, st)
            return st
        if node.kind == 'loop':
            if isinstance(s, ast.For):
                it = self.ev(s.iter, st)
                st._iter = it
            return st
        if node.kind == 'with':
            for item in s.items:
                v = self.ev(item.context_expr, st)
                if item.optional_vars is not None:
                    self.bind(item.optional_vars, v, st)
            return st
        if isinstance(s, ast.Assign):
            v = self.ev(s.value, st)
            if self.dead:
                return None
            for t in s.targets:
                if isinstance(t, ast.Name) and isinstance(v, V) and v.tag == 'proj' and v.a.startswith('field:') is False and False:
                    pass
                self.bind(t, v, st)
                # tuple parameter unpacking keeps applicability correlation (helper called with (name, value))
                tc = getattr(self, 'tuple_corr', None)
                if tc and isinstance(s.value, ast.Subscript) and isinstance(s.value.value, ast.Name) and isinstance(s.value.slice, ast.Constant) \
                        and (s.value.value.id, s.value.slice.value) in tc and isinstance(t, ast.Name):
                    st.corr[t.id] = tc[(s.value.value.id, s.value.slice.value)]
                if tc and isinstance(s.value, ast.Name) and isinstance(t, (ast.Tuple, ast.List)):
                    for i, el in enumerate(t.elts):
                        if isinstance(el, ast.Name) and (s.value.id, i) in tc:
                            st.corr[el.id] = tc[(s.value.id, i)]
            return st
        if isinstance(s, ast.AugAssign):
            self.ev(s.value, st)
            if isinstance(s.target, ast.Name):
                st.env.pop(s.target.id, None)
            else:
                self.bind(s.target, None, st)
            return st
        if isinstance(s, ast.AnnAssign):
            v = self.ev(s.value, st) if s.value is not None else None
            self.bind(s.target, v, st)
            return st
        if isinstance(s, ast.Expr):
            self.ev(s.value, st)
            if self.dead:
                return None
            return st
        if isinstance(s, ast.Return):
            v = self.ev(s.value, st) if s.value is not None else None
            if self.dead:
                return None
            self.returns.append((v, st))
            if self.depth == 0:
                self.ev_event('return', s, state=st.summary())
            return st
        if isinstance(s, ast.Raise):
            exc = s.exc
            nm = None
            if isinstance(exc, ast.Call):
                nm = call_name(exc)
                for a in exc.args:
                    self.ev(a, st)
                for k in exc.keywords:
                    self.ev(k.value, st)
            elif exc is not None:
                nm = dotted(exc)
            caught_locally = bool(node.tries)
            parts = []
            if isinstance(exc, ast.Call):
                for a in list(exc.args) + [k.value for k in exc.keywords]:
                    parts += self.secret_parts(a, st)
            self.ev_event('raise', s, exc=nm, state=st.summary(), in_handler=bool(node.handlers), in_try=caught_locally, secrets=parts)
            return st
        if isinstance(s, ast.Delete):
            for t in s.targets:
                if isinstance(t, ast.Subscript):
                    self.ev(t.value, st)
                    b = self.ev_quiet(t.value, st)
                    if isinstance(b, V) and b.tag == 'proj' and b.a.startswith('field:'):
                        self.mutation(t, b.b, b.a[6:], 'delitem', None, st)
            return st
        for c in ast.iter_child_nodes(s):
            if isinstance(c, ast.expr):
                self.ev(c, st)
        return st

    # ---- driver
    def run(self):
        g = self.g
        IN = {n.id: {} for n in g.nodes}
        IN[g.entry.id] = {self.st0.key(): self.st0}
        work = [g.entry]
        visited_events = {}
        while work:
            n = work.pop()
            for k, st in list(IN[n.id].items()):
                done = visited_events.setdefault(n.id, set())
                if k in done:
                    continue
                done.add(k)
                out = self.transfer(n, st)
                for s_, lab in n.succ:
                    if lab == 'exc':
                        e2 = st.copy()
                        if s_ is g.raise_exit:
                            continue
                    else:
                        if out is None:
                            continue
                        e2 = out
                        if n.kind == 'test' and lab in ('T', 'F'):
                            e2 = self.refine(n.stmt, out, lab == 'T')
                            if e2 is None:
                                continue
                        elif n.kind == 'loop' and isinstance(n.stmt, ast.For):
                            it = getattr(out, '_iter', None)
                            marker = '__single__%d' % n.stmt.lineno
                            single = isinstance(it, V) and it.tag in ('list', 'dictkeys') and it.b == 'one'
                            if lab == 'T':
                                if isinstance(it, V) and it.tag == 'list' and it.b is True:
                                    continue      # iterating a literally empty list
                                if marker in out.env:
                                    continue      # the single element was already consumed
                                e2 = out.copy()
                                self.bind(n.stmt.target, self.elem_of(it), e2)
                                if single:
                                    e2.env[marker] = V('const', 'done')
                            else:
                                if single and marker not in out.env:
                                    continue      # exactly one iteration happens first
                                e2 = out.copy()
                                e2.env.pop(marker, None)
                    if s_ is g.exit:
                        IN[s_.id][e2.key()] = e2
                        if lab != 'return':
                            self.returns.append((None, e2))
                            if self.depth == 0:
                                self.node = n
                                self.ev_event('return', n.stmt if n.stmt is not None else self.fn, state=e2.summary(), falls_off=True)
                        continue
                    if s_.kind == 'loop' and isinstance(s_.stmt, ast.For) and ('__single__%d' % s_.stmt.lineno) in e2.env:
                        k2 = e2.key()
                        if k2 not in IN[s_.id]:
                            IN[s_.id][k2] = e2
                            work.append(s_)
                        continue
                    if s_.kind == 'loop' and IN[s_.id]:
                        (ok, old), = list(IN[s_.id].items())[:1]
                        j = join_state(old, e2)
                        if j.key() != ok:
                            IN[s_.id] = {j.key(): j}
                            work.append(s_)
                        continue
                    k2 = e2.key()
                    if k2 not in IN[s_.id] and len(IN[s_.id]) >= SOFT_CAP:
                        # many disjuncts that agree on everything the rules look at (objects, attribute names, session state) and differ
                        # only in plain locals (the fields of a log record being assembled ...): join with such a state instead of adding one
                        sig2 = tracked_signature(e2)
                        for ok_, old_ in list(IN[s_.id].items()):
                            if tracked_signature(old_) == sig2:
                                j_ = join_state(old_, e2)
                                if tracked_signature(j_) == sig2:
                                    if j_.key() != ok_:
                                        del IN[s_.id][ok_]
                                        IN[s_.id][j_.key()] = j_
                                        work.append(s_)
                                    k2 = None
                                    break
                        if k2 is None:
                            continue
                    if k2 not in IN[s_.id]:
                        if len(IN[s_.id]) >= CAP:
                            self.ai.bounds_hit.append('disjunct cap in %s at line %s' % (self.fn.name, s_.line))
                            raise AnalysisError('bound hit: more than %d abstract states at %s:%s' % (CAP, self.fn.name, s_.line))
                        IN[s_.id][k2] = e2
                        work.append(s_)
        mx = max((len(v) for v in IN.values()), default=0)
        key = self.fn.name
        self.ai.max_disjuncts[key] = max(self.ai.max_disjuncts.get(key, 0), mx)
        self.IN = IN
        return list(IN[g.exit.id].values())
