"""Prototype: abstract interpretation of KmipEngine handlers.

Domains: pie object facts (types/states/mask bits/origin/dirty), attribute
name sets (known rule-table names vs UNKNOWN), small containers, constants.
Disjunctive states; context-sensitive inlining of same-class helpers.
Throwaway prototype for the design phase.
"""
import ast
import sys
sys.path.insert(0, '/tmp/proto')
from cfg import CFG

ENG_SRC = open('/repo/kmip/services/server/engine.py').read()
ENG = ast.parse(ENG_SRC)
POBJ = ast.parse(open('/repo/kmip/pie/objects.py').read())
POL = ast.parse(open('/repo/kmip/services/server/policy.py').read())
ENUMS = ast.parse(open('/repo/kmip/core/enums.py').read())
AVF = ast.parse(open('/repo/kmip/core/factories/attribute_values.py').read())
KE = [n for n in ENG.body if isinstance(n, ast.ClassDef) and n.name == 'KmipEngine'][0]
METHODS = {m.name: m for m in KE.body if isinstance(m, ast.FunctionDef)}

# ---------------------------------------------------------------- tables
PCLS = {n.name: n for n in POBJ.body if isinstance(n, ast.ClassDef)}


def base_names(c):
    return [b.id if isinstance(b, ast.Name) else b.attr for b in c.bases]


def pie_fields(cname):
    c = PCLS[cname]
    f = set()
    for bn in base_names(c):
        if bn in PCLS:
            f |= pie_fields(bn)
    for n in c.body:
        if isinstance(n, ast.Assign):
            for t in n.targets:
                if isinstance(t, ast.Name):
                    f.add(t.id)
        elif isinstance(n, ast.FunctionDef):
            f.add(n.name)
            if n.name == '__init__':
                for m in ast.walk(n):
                    if isinstance(m, ast.Attribute) and isinstance(m.value, ast.Name) and m.value.id == 'self' and isinstance(m.ctx, ast.Store):
                        f.add(m.attr)
    return f


def issub(c, base):
    if c == base:
        return True
    return any(bn in PCLS and issub(bn, base) for bn in base_names(PCLS[c]))


OBJMAP = {}
for n in ast.walk(KE):
    if isinstance(n, ast.Assign) and ast.unparse(n.targets[0]) == 'self._object_map':
        for k, v in zip(n.value.keys, n.value.values):
            if isinstance(v, ast.Attribute):
                OBJMAP[k.attr] = v.attr
ALLT = frozenset(OBJMAP)
FIELDS = {t: pie_fields(c) for t, c in OBJMAP.items()}
STATES = frozenset(['PRE_ACTIVE', 'ACTIVE', 'DEACTIVATED', 'COMPROMISED', 'DESTROYED', 'DESTROYED_COMPROMISED'])

# attribute rule table (constant folded from the literal dict)
RULES = {}
AP = [n for n in POL.body if isinstance(n, ast.ClassDef) and n.name == 'AttributePolicy'][0]
for n in ast.walk(AP):
    if isinstance(n, ast.Assign) and ast.unparse(n.targets[0]) == 'self._attribute_rule_sets':
        for k, v in zip(n.value.keys, n.value.values):
            a = v.args
            RULES[k.value] = dict(
                modifiable=a[3].value, deletable=a[4].value, multi=a[5].value,
                applies=frozenset(x.attr for x in a[7].elts),
                added=(a[8].args[0].value, a[8].args[1].value))
ALLNAMES = frozenset(RULES)
UNK = '<unknown>'

# policy methods that dereference the rule set unguarded (computed from bodies)
DEREF = set()
for m in AP.body:
    if isinstance(m, ast.FunctionDef) and m.name.startswith('is_attribute'):
        src = ast.unparse(m)
        guarded = 'not in self._attribute_rule_sets' in src
        if not guarded:
            DEREF.add(m.name)

# names reachable from tags the by-enum factory constructs
TAG2NAME = {}
for n in ENUMS.body:
    if isinstance(n, ast.Assign) and ast.unparse(n.targets[0]) == 'attribute_name_tag_table':
        for e in n.value.elts:
            TAG2NAME[e.elts[1].attr] = e.elts[0].value
BYENUM = set()
fac = [n for n in AVF.body if isinstance(n, ast.ClassDef)][0]
be = [m for m in fac.body if isinstance(m, ast.FunctionDef) and m.name == 'create_attribute_value_by_enum'][0]
for n in ast.walk(be):
    if isinstance(n, ast.If) and isinstance(n.test, ast.Compare) and isinstance(n.test.comparators[0], ast.Attribute):
        tag = n.test.comparators[0].attr
        if any(isinstance(s, ast.Return) for s in n.body):
            BYENUM.add(tag)
BYENUM_NAMES = frozenset(TAG2NAME[t] for t in BYENUM if t in TAG2NAME)


# ---------------------------------------------------------------- values
class Obj:
    __slots__ = ('types', 'states', 'bits', 'origin')

    def __init__(self, types=ALLT, states=STATES, bits=frozenset(), origin='loaded'):
        self.types, self.states, self.bits, self.origin = frozenset(types), frozenset(states), frozenset(bits), origin

    def key(self):
        return ('Obj', self.types, self.states, self.bits, self.origin)

    def w(self, **kw):
        d = dict(types=self.types, states=self.states, bits=self.bits, origin=self.origin)
        d.update(kw)
        return Obj(**d)

    def __repr__(self):
        return 'Obj(%s|%s|%s|%s)' % (','.join(sorted(self.types)), '*' if self.states == STATES else ','.join(sorted(self.states)), ','.join(sorted(self.bits)), self.origin)


class Name:
    __slots__ = ('names',)

    def __init__(self, names):
        self.names = frozenset(names)

    def key(self):
        return ('Name', self.names)

    @property
    def unknown(self):
        return UNK in self.names

    def __repr__(self):
        k = sorted(self.names - {UNK})
        return 'Name(%s%s)' % ('UNK+' if self.unknown else '', ','.join(k) if len(k) < 6 else '%d names' % len(k))


class Misc:
    """('masks_of', var) / ('value_of', var) / ('const', v) / ('tuple', (vals)) / ('dictkeys', Name) / ('list', val) / ('clientstr',) / ('policy',)"""
    __slots__ = ('tag', 'arg')

    def __init__(self, tag, arg=None):
        self.tag, self.arg = tag, arg

    def key(self):
        a = self.arg
        if isinstance(a, (Obj, Name, Misc)):
            a = a.key()
        elif isinstance(a, tuple):
            a = tuple(x.key() if hasattr(x, 'key') else x for x in a)
        return ('Misc', self.tag, a)

    def __repr__(self):
        return 'Misc(%s,%r)' % (self.tag, self.arg)


def freeze(env):
    return tuple(sorted((k, v.key()) for k, v in env.items()))


def enum_const(e, cls):
    if isinstance(e, ast.Attribute) and isinstance(e.value, ast.Attribute) and e.value.attr == cls:
        return e.attr
    return None


CLIENT_NAME_EXPRS = (
    'payload.attribute_name', 'payload.attribute_reference.attribute_name',
    'payload.attribute.attribute_name.value', 'payload_attribute.attribute_name.value',
    'attribute.attribute_name.value')

REPORTS = set()
INFO = set()


def report(kind, fn, line, what, ctx):
    REPORTS.add((kind, fn, line, what, ctx))


class Interp:
    def __init__(self, fn, env0, ctx, depth=0, protected=False):
        self.protected = protected
        self.fn = fn
        self.g = CFG(fn)
        self.env0 = env0
        self.ctx = ctx          # tuple of caller names
        self.depth = depth
        self.returns = []

    # ---- expression evaluation -------------------------------------------
    def ev(self, env, e):
        if isinstance(e, ast.Name):
            return env.get(e.id)
        if isinstance(e, ast.Constant):
            return Misc('const', e.value) if isinstance(e.value, str) else None
        src = ast.unparse(e)
        if src in CLIENT_NAME_EXPRS:
            return Name(ALLNAMES | {UNK})
        if src == 'payload.attribute_names':
            return Misc('list', Name(ALLNAMES | {UNK}))
        if src == 'list()':
            return Misc('list', None)
        if isinstance(e, ast.Call):
            f = ast.unparse(e.func)
            if f == 'self._get_object_with_access_controls':
                return Obj()
            if f == 'enums.convert_attribute_tag_to_name':
                return Name(BYENUM_NAMES)
            if f in ('self._attribute_policy.get_all_attribute_names',):
                return Misc('list', Name(ALLNAMES))
            if f == 'copy.deepcopy' and e.args:
                return self.ev(env, e.args[0])
            if f.startswith('objects.') and f.split('.')[1] in PCLS:
                cn = f.split('.')[1]
                ts = [t for t, c in OBJMAP.items() if c == cn]
                if ts:
                    return Obj(types=ts, states={'PRE_ACTIVE'}, origin='fresh')
            if f.endswith('.convert') and 'factory' in f:
                return Obj(origin='fresh', states={'PRE_ACTIVE'})
            if f == 'self._list_objects_with_access_controls':
                return Misc('list', Obj())
            if f == 'six.iteritems' and e.args:
                v = self.ev(env, e.args[0])
                if isinstance(v, Misc) and v.tag == 'dictkeys':
                    return Misc('list', Misc('tuple', (v.arg, None)))
            if f.startswith('self.') and f[5:] in METHODS and f[5:] in INLINE:
                return self.inline(env, e)
            return None
        if isinstance(e, ast.Attribute):
            b = self.ev(env, e.value)
            if isinstance(b, Obj):
                if e.attr == 'cryptographic_usage_masks' and isinstance(e.value, ast.Name):
                    return Misc('masks_of', e.value.id)
                if e.attr == 'value' and isinstance(e.value, ast.Name):
                    return Misc('value_of', e.value.id)
            if src == 'self._attribute_policy':
                return Misc('policy')
            return None
        if isinstance(e, ast.Tuple):
            return Misc('tuple', tuple(self.ev(env, x) for x in e.elts))
        if isinstance(e, ast.List):
            if not e.elts:
                return Misc('list', None)
            vs = [self.ev(env, x) for x in e.elts]
            return Misc('list', vs[0])
        if isinstance(e, ast.Dict):
            if not e.keys:
                return Misc('dictkeys', Name(frozenset()))
            ks = [self.ev(env, k) for k in e.keys]
            if all(isinstance(k, Name) for k in ks):
                s = frozenset()
                for k in ks:
                    s |= k.names
                return Misc('dictkeys', Name(s))
            return None
        if isinstance(e, ast.Subscript):
            b = self.ev(env, e.value)
            if isinstance(b, Misc) and b.tag == 'tuple' and isinstance(e.slice, ast.Constant) and isinstance(e.slice.value, int) and e.slice.value < len(b.arg):
                return b.arg[e.slice.value]
            if isinstance(b, Misc) and b.tag == 'list':
                return b.arg
            return None
        return None

    # ---- checks on expression evaluation -----------------------------------
    def check_expr(self, env, root):
        for n in ast.walk(root):
            if isinstance(n, ast.Attribute) and isinstance(n.ctx, ast.Load) and isinstance(n.value, ast.Name):
                o = env.get(n.value.id)
                if isinstance(o, Obj):
                    missing = tuple(sorted(t for t in o.types if n.attr not in FIELDS[t]))
                    if missing and not self.in_try(n) and not self.protected:
                        report('R13a attr-missing', self.fn.name, n.lineno, '%s.%s' % (n.value.id, n.attr), (missing, self.ctx))
            if isinstance(n, ast.Call):
                f = n.func
                if isinstance(f, ast.Attribute) and f.attr in DEREF or (isinstance(f, ast.Attribute) and f.attr.startswith('is_attribute') and f.attr in DEREF):
                    recv = self.ev(env, f.value)
                    if (isinstance(recv, Misc) and recv.tag == 'policy') and n.args:
                        a = self.ev(env, n.args[0])
                        if not isinstance(a, Name):
                            report('R13b name-untracked', self.fn.name, n.lineno, ast.unparse(n)[:70], self.ctx)
                        elif a.unknown:
                            report('R13b unknown-name-deref', self.fn.name, n.lineno, f.attr + '(' + ast.unparse(n.args[0]) + ')', self.ctx)
                if ast.unparse(f).startswith('self._cryptography_engine.'):
                    for a in list(n.args) + [k.value for k in n.keywords]:
                        v = self.ev(env, a)
                        if isinstance(v, Misc) and v.tag == 'value_of':
                            kw = [k.arg for k in n.keywords if k.value is a]
                            INFO.add(('use', self.fn.name, f.attr, kw[0] if kw else 'pos%d' % n.args.index(a), repr(env.get(v.arg))))

    def in_try(self, node):
        # is node lexically inside a try body whose handler catches Exception?
        for t in ast.walk(self.fn):
            if isinstance(t, ast.Try):
                for b in t.body:
                    for d in ast.walk(b):
                        if d is node:
                            for h in t.handlers:
                                if h.type is None or ast.unparse(h.type) in ('Exception',):
                                    return True
        return False

    # ---- refinement ------------------------------------------------------
    def refine(self, env, test, pol):
        env = dict(env)
        if isinstance(test, ast.Call):
            f = test.func
            fs = ast.unparse(f)
            if fs == 'hasattr' and len(test.args) == 2 and isinstance(test.args[0], ast.Name) and isinstance(env.get(test.args[0].id), Obj):
                o = env[test.args[0].id]
                fld = test.args[1].value
                ts = frozenset(t for t in o.types if (fld in FIELDS[t]) == pol)
                if not ts:
                    return None
                env[test.args[0].id] = o.w(types=ts)
                return env
            if fs == 'isinstance' and isinstance(test.args[0], ast.Name) and isinstance(env.get(test.args[0].id), Obj) and isinstance(test.args[1], ast.Attribute):
                o = env[test.args[0].id]
                ts = frozenset(t for t in o.types if issub(OBJMAP[t], test.args[1].attr) == pol)
                if not ts:
                    return None
                env[test.args[0].id] = o.w(types=ts)
                return env
            if isinstance(f, ast.Attribute) and f.attr.startswith('is_attribute') and test.args:
                recv = self.ev(env, f.value)
                a = test.args[0]
                v = self.ev(env, a)
                if isinstance(recv, Misc) and recv.tag == 'policy' and isinstance(v, Name) and isinstance(a, ast.Name):
                    names = v.names
                    if f.attr == 'is_attribute_supported':
                        # version abstracted away: supported => known name
                        names = frozenset(x for x in names if x != UNK) if pol else names
                    elif f.attr == 'is_attribute_modifiable_by_client':
                        names = frozenset(x for x in names if x == UNK or RULES[x]['modifiable'] == pol)
                    elif f.attr == 'is_attribute_deletable_by_client':
                        names = frozenset(x for x in names if x == UNK or RULES[x]['deletable'] == pol)
                    elif f.attr == 'is_attribute_multivalued':
                        names = frozenset(x for x in names if x == UNK or RULES[x]['multi'] == pol)
                    elif f.attr == 'is_attribute_applicable_to_object_type' and len(test.args) == 2:
                        ot = test.args[1]
                        ov = None
                        if isinstance(ot, ast.Attribute) and isinstance(ot.value, ast.Name):
                            ov = ot.value.id
                        elif isinstance(ot, ast.Name) and isinstance(env.get(ot.id), Misc) and env[ot.id].tag == 'type_of':
                            ov = env[ot.id].arg
                        if ov and isinstance(env.get(ov), Obj):
                            o = env[ov]
                            if pol:
                                # keep (name,type) pairs that are applicable: approximate per-name
                                names = frozenset(x for x in names if x == UNK or (RULES[x]['applies'] & o.types))
                                if len(names - {UNK}) == 1:
                                    nm = next(iter(names - {UNK}))
                                    env[ov] = o.w(types=o.types & RULES[nm]['applies'])
                                else:
                                    env['__applic__' + a.id] = Misc('applic', ov)
                    if not names:
                        return None
                    env[a.id] = Name(names)
                return env
            return env
        if isinstance(test, ast.Compare) and len(test.ops) == 1:
            l, op, r = test.left, test.ops[0], test.comparators[0]
            lv = self.ev(env, l)
            # name == 'Const'
            if isinstance(lv, Name) and isinstance(l, ast.Name):
                c = None
                if isinstance(r, ast.Constant) and isinstance(r.value, str):
                    c = r.value
                elif isinstance(r, ast.Attribute) and r.attr == 'value' and enum_const(r.value, 'AttributeType'):
                    c = TAG2NAME.get(r.value.attr) or r.value.attr.replace('_', ' ').title()
                if c is not None and isinstance(op, (ast.Eq, ast.NotEq)):
                    eq = isinstance(op, ast.Eq) == pol
                    names = frozenset(x for x in lv.names if (x == c) == eq or (x == UNK and not eq))
                    if not names:
                        return None
                    env[l.id] = Name(names)
                    # applicability correlation: narrowing to a single name refines object types
                    k = '__applic__' + l.id
                    if eq and k in env and isinstance(env.get(env[k].arg), Obj) and c in RULES:
                        o = env[env[k].arg]
                        ts = o.types & RULES[c]['applies']
                        if not ts:
                            return None
                        env[env[k].arg] = o.w(types=ts)
                    return env
            if isinstance(l, ast.Attribute) and l.attr in ('_object_type', 'object_type') and isinstance(l.value, ast.Name) and isinstance(env.get(l.value.id), Obj):
                o = env[l.value.id]
                vals = None
                c = enum_const(r, 'ObjectType')
                if c:
                    vals = {c}
                elif isinstance(r, (ast.List, ast.Tuple)):
                    vals = {enum_const(x, 'ObjectType') for x in r.elts}
                if vals:
                    eq = isinstance(op, (ast.Eq, ast.Is, ast.In)) == pol
                    ts = frozenset(t for t in o.types if (t in vals) == eq)
                    if not ts:
                        return None
                    env[l.value.id] = o.w(types=ts)
                return env
            if isinstance(l, ast.Attribute) and l.attr == 'state' and isinstance(l.value, ast.Name) and isinstance(env.get(l.value.id), Obj):
                c = enum_const(r, 'State')
                if c:
                    o = env[l.value.id]
                    eq = isinstance(op, (ast.Eq, ast.Is)) == pol
                    ss = frozenset(s for s in o.states if (s == c) == eq)
                    if not ss:
                        return None
                    env[l.value.id] = o.w(states=ss)
                return env
            c = enum_const(l, 'CryptographicUsageMask')
            if c is None and isinstance(lv, Misc) and lv.tag == 'const' and isinstance(lv.arg, tuple) and lv.arg[0] == 'mask':
                c = lv.arg[1]
            if c and isinstance(op, (ast.In, ast.NotIn)):
                rv = self.ev(env, r)
                if isinstance(rv, Misc) and rv.tag == 'masks_of' and (isinstance(op, ast.In) == pol):
                    o = env[rv.arg]
                    env[rv.arg] = o.w(bits=o.bits | {c})
                return env
        return env

    # ---- transfer --------------------------------------------------------
    def transfer(self, env, node):
        s = node.stmt
        env = dict(env)
        if s is None or isinstance(s, (ast.Try, ast.ExceptHandler)):
            return env
        if node.kind == 'test' and not isinstance(s, ast.For):
            self.check_expr(env, s)
            return env
        if isinstance(s, ast.For):
            self.check_expr(env, s.iter)
            it = self.ev(env, s.iter)
            tv = it.arg if isinstance(it, Misc) and it.tag == 'list' else None
            if isinstance(it, Misc) and it.tag == 'dictkeys':
                tv = it.arg
            self.bind(env, s.target, tv)
            return env
        self.check_expr(env, s)
        if isinstance(s, ast.Assign) and len(s.targets) == 1:
            t = s.targets[0]
            v = self.ev(env, s.value)
            if enum_const(s.value, 'CryptographicUsageMask'):
                v = Misc('const', ('mask', s.value.attr))
            if isinstance(s.value, ast.Attribute) and s.value.attr in ('_object_type', 'object_type') and isinstance(s.value.value, ast.Name) and isinstance(env.get(s.value.value.id), Obj):
                v = Misc('type_of', s.value.value.id)
            if isinstance(t, ast.Attribute) and t.attr == 'state' and isinstance(t.value, ast.Name) and isinstance(env.get(t.value.id), Obj):
                c = enum_const(s.value, 'State')
                o = env[t.value.id]
                INFO.add(('transition', self.fn.name, tuple(sorted(o.states)), c, o.origin))
                env[t.value.id] = o.w(states={c} if c else STATES)
            else:
                self.bind(env, t, v)
        elif isinstance(s, ast.Expr) and isinstance(s.value, ast.Call):
            c = s.value
            f = c.func
            fs_ = ast.unparse(f)
            if fs_.startswith('self.') and fs_[5:] in INLINE:
                self.inline(env, c)
            if isinstance(f, ast.Attribute) and f.attr == 'append' and isinstance(f.value, ast.Name) and c.args:
                L = env.get(f.value.id)
                a = self.ev(env, c.args[0])
                if isinstance(L, Misc) and L.tag == 'list':
                    cur = L.arg
                    if cur is None:
                        env[f.value.id] = Misc('list', a)
                    elif isinstance(cur, Obj) and isinstance(a, Obj):
                        env[f.value.id] = Misc('list', Obj(cur.types | a.types, cur.states | a.states, cur.bits & a.bits, cur.origin))
            if isinstance(f, ast.Attribute) and f.attr == 'update' and isinstance(f.value, ast.Name) and c.args:
                # attributes.update([(name, value)])
                D = env.get(f.value.id)
                a = c.args[0]
                if isinstance(D, Misc) and D.tag == 'dictkeys' and isinstance(a, ast.List) and a.elts and isinstance(a.elts[0], ast.Tuple):
                    k = self.ev(env, a.elts[0].elts[0])
                    if isinstance(k, Name):
                        env[f.value.id] = Misc('dictkeys', Name(D.arg.names | k.names))
                    else:
                        env[f.value.id] = Misc('dictkeys', Name(D.arg.names | {UNK}))
        elif isinstance(s, ast.Return):
            self.returns.append(self.ev(env, s.value) if s.value is not None else None)
        return env

    def bind(self, env, target, v):
        if isinstance(target, ast.Name):
            if v is None:
                env.pop(target.id, None)
            else:
                env[target.id] = v
            env.pop('__applic__' + target.id, None)
        elif isinstance(target, ast.Tuple):
            for i, t in enumerate(target.elts):
                if isinstance(v, Misc) and v.tag == 'tuple' and i < len(v.arg):
                    self.bind(env, t, v.arg[i])
                else:
                    self.bind(env, t, None)

    # ---- inlining ----------------------------------------------------------
    def inline(self, env, call):
        name = ast.unparse(call.func)[5:]
        if self.depth >= 3:
            return None
        callee = METHODS[name]
        params = [a.arg for a in callee.args.args][1:]
        env0 = {}
        for p, a in zip(params, call.args):
            v = self.ev(env, a)
            if v is not None:
                env0[p] = v
        for kw in call.keywords:
            v = self.ev(env, kw.value)
            if v is not None:
                env0[kw.arg] = v
        # carry applicability correlation for name args
        for p, a in zip(params, call.args):
            if isinstance(a, ast.Name) and ('__applic__' + a.id) in env:
                # applicability established on caller's object var; map to callee param if object passed
                objvar = env['__applic__' + a.id].arg
                for p2, a2 in zip(params, call.args):
                    if isinstance(a2, ast.Name) and a2.id == objvar:
                        env0['__applic__' + p] = Misc('applic', p2)
        sub = Interp(callee, env0, self.ctx + (self.fn.name,), self.depth + 1, protected=self.protected or self.in_try(call))
        sub.run()
        rets = [r for r in sub.returns if r is not None]
        if not rets:
            return None
        if all(isinstance(r, Misc) and r.tag == 'dictkeys' for r in rets):
            s = frozenset()
            for r in rets:
                s |= r.arg.names
            return Misc('dictkeys', Name(s))
        return None

    # ---- driver ------------------------------------------------------------
    def run(self):
        g = self.g
        IN = {n.id: {} for n in g.nodes}
        IN[g.entry.id] = {freeze(self.env0): self.env0}
        work = [g.entry]
        while work:
            n = work.pop()
            for fz, env in list(IN[n.id].items()):
                out = self.transfer(env, n)
                for s_, lab in n.succ:
                    e2 = out
                    if n.kind == 'test' and lab in ('T', 'F') and not isinstance(n.stmt, ast.For):
                        e2 = self.refine(out, n.stmt, lab == 'T')
                        if e2 is None:
                            continue
                    if lab == 'exc':
                        e2 = env
                    if isinstance(s_.stmt, (ast.For, ast.While)) and s_.kind == 'test' and IN[s_.id]:
                        # loop head: join with existing single state
                        (ofz, old), = list(IN[s_.id].items())[:1]
                        j = join_env(old, e2)
                        fzj = freeze(j)
                        if fzj != ofz:
                            IN[s_.id] = {fzj: j}
                            work.append(s_)
                        continue
                    fz2 = freeze(e2)
                    if fz2 not in IN[s_.id]:
                        if len(IN[s_.id]) >= 64:
                            raise RuntimeError('disjunct cap hit in %s at %r' % (self.fn.name, s_))
                        IN[s_.id][fz2] = e2
                        work.append(s_)
        return IN


def join_val(a, b):
    if a is None or b is None:
        return None
    if isinstance(a, Obj) and isinstance(b, Obj):
        return Obj(a.types | b.types, a.states | b.states, a.bits & b.bits, a.origin if a.origin == b.origin else 'mixed')
    if isinstance(a, Name) and isinstance(b, Name):
        return Name(a.names | b.names)
    if isinstance(a, Misc) and isinstance(b, Misc) and a.tag == b.tag:
        if a.key() == b.key():
            return a
        if a.tag in ('list', 'dictkeys') :
            x = join_val(a.arg, b.arg) if (a.arg is not None and b.arg is not None) else (a.arg or b.arg)
            return Misc(a.tag, x) if x is not None else None
    return None


def join_env(e1, e2):
    out = {}
    for k in set(e1) & set(e2):
        v = join_val(e1[k], e2[k])
        if v is not None:
            out[k] = v
    return out


INLINE = {'_process_template_attribute', '_get_attributes_from_managed_object', '_get_attribute_from_managed_object',
          '_get_attribute_index_from_managed_object', '_set_attributes_on_managed_object', '_set_attribute_on_managed_object',
          '_set_attribute_on_managed_object_by_index', '_delete_attribute_from_managed_object'}

if __name__ == '__main__':
    for name, m in METHODS.items():
        if name.startswith('_process_') and name not in ('_process_batch', '_process_operation', '_process_template_attribute'):
            env0 = {'payload': Misc('payload', name)}
            Interp(m, env0, ()).run()
    for r in sorted(REPORTS, key=lambda r: (r[0], r[1], r[2])):
        print(r)
    print('--- info')
    for i in sorted(INFO, key=str):
        print(i)
    print('DEREF methods:', sorted(DEREF))
    print('BYENUM names not in rule table:', sorted(BYENUM_NAMES - ALLNAMES))
