import ast
t=ast.parse(open('/repo/kmip/services/server/engine.py').read())
cls=[n for n in t.body if isinstance(n, ast.ClassDef) and n.name=='KmipEngine'][0]
disp={}
po=[m for m in cls.body if isinstance(m, ast.FunctionDef) and m.name=='_process_operation'][0]
for n in ast.walk(po):
    if isinstance(n, ast.If) and isinstance(n.test, ast.Compare):
        op=n.test.comparators[0].attr
        for r in n.body:
            if isinstance(r, ast.Return): disp[r.value.func.attr]=op
for m in cls.body:
    if isinstance(m, ast.FunctionDef):
        dec=[ast.unparse(d) for d in m.decorator_list]
        for n in ast.walk(m):
            if isinstance(n, ast.Call) and ast.unparse(n.func) in ('self._get_object_with_access_controls','self._list_objects_with_access_controls'):
                print('%-30s disp=%-20s gate=%-32s load_op=%s'%(m.name, disp.get(m.name), dec, ast.unparse(n.args[-1])))
print({k:v for k,v in disp.items()})
