import sys; sys.path.insert(0,'/tmp/proto')
from schema import *
bad=[]; n=0
for q in sorted(IDX.classes):
    if not q.startswith('kmip.core') or q.startswith('kmip.core.primitives') or q.startswith('kmip.core.utils'): continue
    c=IDX.classes[q]
    own={m.name:m for m in c.body if isinstance(m, ast.FunctionDef)}
    if 'write' not in own or 'read' not in own: continue
    w=own['write']; n+=1
    out=w.args.args[1].arg
    # linear order by lineno
    child=[]; lenassign=[]; superw=[]; outw=[]
    streams=set()
    for x in ast.walk(w):
        if isinstance(x, ast.Assign) and isinstance(x.value, ast.Call) and ast.unparse(x.value.func).endswith('BytearrayStream'):
            streams.add(ast.unparse(x.targets[0]))
    for x in ast.walk(w):
        if isinstance(x, ast.Assign) and ast.unparse(x.targets[0])=='self.length':
            lenassign.append((x.lineno, ast.unparse(x.value)))
        if isinstance(x, ast.Call) and isinstance(x.func, ast.Attribute) and x.func.attr=='write':
            r=ast.unparse(x.func.value)
            if r.startswith('super('): superw.append(x.lineno)
            elif r==out: outw.append((x.lineno, ast.unparse(x.args[0])))
            elif x.args and ast.unparse(x.args[0]) in streams: child.append(x.lineno)
            elif r in streams: child.append(x.lineno)
    ok = len(lenassign)==1 and len(superw)==1 and len(outw)==1 and (not child or max(child)<lenassign[0][0]) and lenassign[0][0]<superw[0]<outw[0][0] and lenassign[0][1].replace('()','') .endswith('.length') and outw[0][1].endswith('.buffer')
    if not ok: bad.append((q, lenassign, superw, outw, child[-1:] ))
print(n,'writers;', len(bad),'deviations')
for b in bad: print(b)
