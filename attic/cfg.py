"""Prototype statement-level CFG for Python functions (throwaway)."""
import ast
import collections


class Node:
    __slots__ = ('id', 'stmt', 'kind', 'succ', 'pred', 'label')

    def __init__(self, id, stmt, kind):
        self.id = id
        self.stmt = stmt      # ast node (statement or test expression) or None
        self.kind = kind      # 'entry','exit','raise_exit','stmt','test','handler','join'
        self.succ = []        # list of (node, edge_label)
        self.pred = []

    def __repr__(self):
        s = ''
        if self.stmt is not None:
            try:
                s = ast.unparse(self.stmt).split('\n')[0][:60]
            except Exception:
                s = type(self.stmt).__name__
        return '<%d %s %s>' % (self.id, self.kind, s)


class CFG:
    """Edges: label in {None,'T','F','exc','loop','break','continue'}."""

    def __init__(self, fn):
        self.fn = fn
        self.nodes = []
        self.entry = self.new(None, 'entry')
        self.exit = self.new(None, 'exit')            # normal return / fall off
        self.raise_exit = self.new(None, 'raise_exit')  # exception leaves function
        self.loop_stack = []   # (continue_target, break_target)
        self.try_stack = []    # list of handler-dispatch nodes
        self.finally_stack = []
        last = self.block(fn.body, [(self.entry, None)])
        for n, l in last:
            self.edge(n, self.exit, l)

    def new(self, stmt, kind):
        n = Node(len(self.nodes), stmt, kind)
        self.nodes.append(n)
        return n

    def edge(self, a, b, label=None):
        a.succ.append((b, label))
        b.pred.append((a, label))

    def connect(self, frontier, node):
        for n, l in frontier:
            self.edge(n, node, l)

    def exc_target(self):
        return self.try_stack[-1] if self.try_stack else self.raise_exit

    def may_raise(self, stmt):
        """Conservative: any statement containing a call/subscript/attribute may raise."""
        for n in ast.walk(stmt):
            if isinstance(n, (ast.Call, ast.Subscript, ast.Attribute, ast.BinOp)):
                return True
        return False

    def cond(self, test, frontier):
        """Decompose a condition; returns (true_frontier, false_frontier)."""
        if isinstance(test, ast.UnaryOp) and isinstance(test.op, ast.Not):
            t, f = self.cond(test.operand, frontier)
            return f, t
        if isinstance(test, ast.BoolOp):
            if isinstance(test.op, ast.And):
                falses = []
                cur = frontier
                for v in test.values:
                    t, f = self.cond(v, cur)
                    falses += f
                    cur = t
                return cur, falses
            else:
                trues = []
                cur = frontier
                for v in test.values:
                    t, f = self.cond(v, cur)
                    trues += t
                    cur = f
                return trues, cur
        n = self.new(test, 'test')
        self.connect(frontier, n)
        if self.try_stack and self.may_raise(test):
            self.edge(n, self.exc_target(), 'exc')
        return [(n, 'T')], [(n, 'F')]

    def block(self, stmts, frontier):
        for s in stmts:
            if not frontier:
                break   # unreachable code
            frontier = self.stmt(s, frontier)
        return frontier

    def stmt(self, s, frontier):
        if isinstance(s, ast.If):
            tf, ff = self.cond(s.test, frontier)
            a = self.block(s.body, tf)
            b = self.block(s.orelse, ff) if s.orelse else ff
            return a + b
        if isinstance(s, (ast.While, ast.For)):
            t = self.new(s.test if isinstance(s, ast.While) else s, 'test')
            self.connect(frontier, t)
            if self.try_stack:
                self.edge(t, self.exc_target(), 'exc')
            brk = self.new(None, 'join')
            self.loop_stack.append((t, brk))
            body_end = self.block(s.body, [(t, 'T')])
            self.loop_stack.pop()
            for n, l in body_end:
                self.edge(n, t, l or 'loop')
            infinite = isinstance(s, ast.While) and isinstance(s.test, ast.Constant) and bool(s.test.value)
            out = []
            if not infinite:
                out = self.block(s.orelse, [(t, 'F')]) if s.orelse else [(t, 'F')]
            if brk.pred:
                out = out + [(brk, None)]
            return out
        if isinstance(s, ast.Try):
            return self.try_(s, frontier)
        if isinstance(s, ast.With):
            n = self.new(s, 'stmt')
            self.connect(frontier, n)
            if self.try_stack:
                self.edge(n, self.exc_target(), 'exc')
            return self.block(s.body, [(n, None)])
        n = self.new(s, 'stmt')
        self.connect(frontier, n)
        if isinstance(s, ast.Return):
            if self.finally_stack:
                # route through innermost finally, then to exit (approximation)
                self.edge(n, self.finally_stack[-1], 'return')
            else:
                self.edge(n, self.exit, 'return')
            return []
        if isinstance(s, ast.Raise):
            self.edge(n, self.exc_target(), 'exc')
            return []
        if isinstance(s, ast.Break):
            self.edge(n, self.loop_stack[-1][1], 'break')
            return []
        if isinstance(s, ast.Continue):
            self.edge(n, self.loop_stack[-1][0], 'continue')
            return []
        if self.try_stack and self.may_raise(s):
            self.edge(n, self.exc_target(), 'exc')
        return [(n, None)]

    def try_(self, s, frontier):
        dispatch = self.new(s, 'handler')   # exception dispatch point for this try
        fin = None
        if s.finalbody:
            fin = self.new(None, 'join')
            self.finally_stack.append(fin)
        self.try_stack.append(dispatch)
        body_end = self.block(s.body, frontier)
        self.try_stack.pop()
        else_end = self.block(s.orelse, body_end) if s.orelse else body_end
        out = list(else_end)
        catches_all = False
        for h in s.handlers:
            hn = self.new(h, 'handler')
            self.edge(dispatch, hn, 'exc')
            if h.type is None or (isinstance(h.type, ast.Name) and h.type.id in ('Exception', 'BaseException')):
                catches_all = True
            out += self.block(h.body, [(hn, None)])
        if not catches_all:
            # unmatched exception propagates outward
            self.edge(dispatch, self.exc_target() if not fin else fin, 'exc')
        if fin is not None:
            self.finally_stack.pop()
            self.connect(out, fin)
            fend = self.block(s.finalbody, [(fin, None)])
            # after finally: normal continuation; (propagating exceptions/returns approximated)
            return fend
        return out

    # ---- analyses -------------------------------------------------------
    def reachable(self, start=None, avoid=()):
        start = start or self.entry
        seen = set()
        st = [start]
        while st:
            n = st.pop()
            if n.id in seen or n in avoid:
                continue
            seen.add(n.id)
            for m, _ in n.succ:
                st.append(m)
        return seen

    def all_paths_pass(self, src, dst, through):
        """True iff every path src->dst passes a node in `through` (set of Node)."""
        avoid = set(through)
        if src in avoid:
            return True
        return dst.id not in self.reachable(src, avoid)

    def dominators(self):
        ids = [n.id for n in self.nodes if n.id in self.reachable()]
        dom = {i: set(ids) for i in ids}
        dom[self.entry.id] = {self.entry.id}
        changed = True
        while changed:
            changed = False
            for i in ids:
                if i == self.entry.id:
                    continue
                ps = [p.id for p, _ in self.nodes[i].pred if p.id in dom]
                new = set(ids)
                for p in ps:
                    new &= dom[p]
                new = new | {i}
                if new != dom[i]:
                    dom[i] = new
                    changed = True
        return dom

    def find(self, pred):
        return [n for n in self.nodes if n.stmt is not None and pred(n)]


def calls_in(node, name_suffix):
    out = []
    if node.stmt is None:
        return out
    targets = [node.stmt]
    if isinstance(node.stmt, (ast.For,)):
        targets = [node.stmt.iter]
    if isinstance(node.stmt, ast.With):
        targets = [i.context_expr for i in node.stmt.items]
    if isinstance(node.stmt, ast.ExceptHandler) or isinstance(node.stmt, ast.Try):
        return out
    for t in targets:
        for n in ast.walk(t):
            if isinstance(n, ast.Call) and ast.unparse(n.func).endswith(name_suffix):
                out.append(n)
    return out


if __name__ == '__main__':
    import sys
    src = open('/repo/kmip/services/server/session.py').read()
    t = ast.parse(src)
    cls = [n for n in t.body if isinstance(n, ast.ClassDef)][0]
    fn = [n for n in cls.body if isinstance(n, ast.FunctionDef) and n.name == '_handle_message_loop'][0]
    g = CFG(fn)
    print(len(g.nodes), 'nodes')
    pr = [n for n in g.nodes if calls_in(n, 'process_request')]
    rd = [n for n in g.nodes if calls_in(n, 'request.read')]
    au = [n for n in g.nodes if calls_in(n, 'self.authenticate')]
    sd = [n for n in g.nodes if calls_in(n, '_send_response')]
    print('process_request at', pr, 'request.read', rd, 'auth', au, 'send', sd)
    dom = g.dominators()
    for p in pr:
        print('dominated by read:', all(r.id in dom[p.id] for r in rd), 'by auth:', all(a.id in dom[p.id] for a in au))
    # every normal path entry->exit passes send
    print('all paths to exit pass send:', g.all_paths_pass(g.entry, g.exit, sd))
    # but: does the read node's exc edge bypass process_request? path from read's exc to process_request
    for r in rd:
        for m, l in r.succ:
            if l == 'exc':
                print('exc edge from read -> ', m, ' reaches process_request? ', pr[0].id in g.reachable(m))
