import ast
t=ast.parse(open('/repo/kmip/core/policy.py').read())
funcs={n.name:n for n in t.body if isinstance(n, ast.FunctionDef)}
MAPOPS={'items','keys','values','get','iteritems','iterkeys','itervalues'}
def analyse(fn, tainted_params):
    tainted=set(tainted_params)
    findings=[]
    def is_t(e):
        if isinstance(e, ast.Name): return e.id in tainted
        if isinstance(e, ast.Call):
            f=e.func
            if isinstance(f, ast.Attribute) and f.attr in ('get',) and is_t(f.value): return True   # element of unshaped
            if ast.unparse(f) in ('json.loads',): return True
        if isinstance(e, ast.Subscript): return is_t(e.value)
        return False
    def guarded(node, parents):
        # enclosed by try with except Exception -> raise ValueError, or dominated by isinstance(x, dict) (not present today)
        for p in parents:
            if isinstance(p, ast.Try):
                for h in p.handlers:
                    if (h.type is None or ast.unparse(h.type) in ('Exception',)) and any(isinstance(x, ast.Raise) and 'ValueError' in ast.unparse(x) for x in ast.walk(h)):
                        # only if node is inside p.body
                        if any(node is d for b in p.body for d in ast.walk(b)): return True
        return False
    def walk(stmts, parents):
        for s in stmts:
            # propagate taint
            if isinstance(s, ast.Assign) and is_t(s.value):
                for tg in s.targets:
                    if isinstance(tg, ast.Name): tainted.add(tg.id)
            if isinstance(s, (ast.For,)):
                it=s.iter
                src=None
                if isinstance(it, ast.Call):
                    f=it.func
                    if isinstance(f, ast.Attribute) and f.attr in MAPOPS and is_t(f.value): src=f.value
                    if isinstance(f, ast.Attribute) and f.attr in MAPOPS and isinstance(f.value, ast.Name) and f.value.id=='six' and it.args and is_t(it.args[0]): src=it.args[0]
                if src is not None:
                    for n in ast.walk(s.target):
                        if isinstance(n, ast.Name): tainted.add(n.id)
            # find mapping-assuming ops on tainted
            roots=[s] if not isinstance(s,(ast.For,ast.If,ast.While,ast.Try,ast.With)) else ([s.iter] if isinstance(s, ast.For) else [s.test] if isinstance(s,(ast.If,ast.While)) else [])
            for r in roots:
                for n in ast.walk(r):
                    if isinstance(n, ast.Call) and isinstance(n.func, ast.Attribute) and n.func.attr in MAPOPS:
                        recv=n.func.value
                        tgt = n.args[0] if (isinstance(recv, ast.Name) and recv.id=='six' and n.args) else recv
                        if is_t(tgt) and not guarded(n, parents+[s]):
                            findings.append((fn.name, n.lineno, ast.unparse(n)[:60]))
                    if isinstance(n, ast.Call) and isinstance(n.func, ast.Name) and n.func.id in funcs:
                        for i,a in enumerate(n.args):
                            if is_t(a):
                                callee=funcs[n.func.id]
                                findings.extend(analyse(callee, [callee.args.args[i].arg]))
            for fld in ('body','orelse','finalbody'):
                if hasattr(s, fld): walk(getattr(s,fld), parents+[s])
            if isinstance(s, ast.Try):
                for h in s.handlers: walk(h.body, parents+[s])
            if isinstance(s, ast.With): pass
    walk(fn.body, [])
    return findings
for f in sorted(set(analyse(funcs['read_policy_from_file'], []))): print(f)
