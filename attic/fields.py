import ast, collections
t=ast.parse(open('/repo/kmip/services/server/engine.py').read())
cls=[n for n in t.body if isinstance(n, ast.ClassDef) and n.name=='KmipEngine'][0]
W=collections.defaultdict(set); R=collections.defaultdict(set); calls=collections.defaultdict(set)
for m in cls.body:
    if not isinstance(m, ast.FunctionDef): continue
    for n in ast.walk(m):
        if isinstance(n, ast.Attribute) and isinstance(n.value, ast.Name) and n.value.id=='self':
            if isinstance(n.ctx, ast.Store): W[n.attr].add(m.name)
            else: R[n.attr].add(m.name)
meths={m.name for m in cls.body if isinstance(m, ast.FunctionDef)}
for f in sorted(set(W)|set(R)):
    if f in meths: continue
    w=W[f]-{'__init__'}
    print(f, 'W:',sorted(W[f]), ' R:', len(R[f]), sorted(R[f])[:6])
