import ast, re
t=ast.parse(open('/repo/kmip/services/server/crypto/engine.py').read())
cls=[n for n in t.body if isinstance(n, ast.ClassDef)][0]
init=[m for m in cls.body if isinstance(m, ast.FunctionDef) and m.name=='__init__'][0]
norm=lambda s: re.sub('[^A-Z0-9]','',s.upper())
ALIAS={'RC4':'ARC4','PKCS5':'PKCS7'}
def key_norm(member):
    m=member
    m=re.sub('^HMAC_','',m)
    return norm(ALIAS.get(m,m))
for n in init.body:
    if isinstance(n, ast.Assign) and isinstance(n.value, ast.Dict):
        name=ast.unparse(n.targets[0])
        for k,v in zip(n.value.keys, n.value.values):
            km=k.attr
            if isinstance(v, ast.Tuple):
                h=v.elts[0].attr; alg=v.elts[1].attr
                mm=re.match('(.*)_WITH_(.*)_ENCRYPTION',km)
                ok = norm(mm.group(1))==norm(h) and mm.group(2)==alg
            elif isinstance(v, ast.Attribute) and isinstance(v.value, ast.Name) and v.value.id=='self':
                ok = km.lower() in v.attr
            else:
                ok = key_norm(km)==norm(v.attr)
            print('%-36s %-28s -> %-22s %s'%(name, km, ast.unparse(v), 'ok' if ok else 'MISMATCH'))
