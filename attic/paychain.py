import ast, sys, re
sys.path.insert(0,'/tmp/proto')
from schema import IDX
eng=ast.parse(open('/repo/kmip/services/server/engine.py').read())
KE=[n for n in eng.body if isinstance(n, ast.ClassDef)][0]
fac=ast.parse(open('/repo/kmip/core/factories/payloads/request.py').read())
fc=[n for n in fac.body if isinstance(n, ast.ClassDef)][0]
create={m.name:m for m in fc.body if isinstance(m, ast.FunctionDef)}
def payload_class(handler):
    op=handler[len('_process_'):]
    m=create.get('_create_%s_payload'%op)
    if not m: return None
    for n in ast.walk(m):
        if isinstance(n, ast.Return): return n.value.func.attr
def members(q):
    out=set()
    for k in IDX.mro(q):
        for n in IDX.classes[k].body:
            if isinstance(n, ast.FunctionDef):
                out.add(n.name)
                if n.name=='__init__':
                    for x in ast.walk(n):
                        if isinstance(x, ast.Attribute) and isinstance(x.value, ast.Name) and x.value.id=='self' and isinstance(x.ctx, ast.Store): out.add(x.attr)
    return out
for m in KE.body:
    if isinstance(m, ast.FunctionDef) and m.name.startswith('_process_') and m.name not in ('_process_batch','_process_operation','_process_template_attribute'):
        pc=payload_class(m.name)
        q=[k for k in IDX.classes if k.endswith('.'+pc)] if pc else []
        if not q: print(m.name,'NO CLASS',pc); continue
        mem=members(q[0])
        chains=set()
        for n in ast.walk(m):
            if isinstance(n, ast.Attribute):
                e=n; parts=[]
                while isinstance(e, ast.Attribute): parts.append(e.attr); e=e.value
                if isinstance(e, ast.Name) and e.id=='payload':
                    chains.add('.'.join(reversed(parts)))
        bad=[c for c in chains if c.split('.')[0] not in mem]
        deep=sorted(c for c in chains if '.' in c)
        print('%-28s %-34s missing=%s deep=%s'%(m.name, pc, bad, deep))
