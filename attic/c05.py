import ast
eng=ast.parse(open('/repo/kmip/services/server/engine.py').read())
fac=ast.parse(open('/repo/kmip/core/factories/secrets.py').read())
cls=[n for n in eng.body if isinstance(n, ast.ClassDef)][0]
bco=[m for m in cls.body if isinstance(m, ast.FunctionDef) and m.name=='_build_core_object'][0]
prod={}
for n in ast.walk(bco):
    if isinstance(n, ast.If) and isinstance(n.test, ast.Compare) and isinstance(n.test.comparators[0], ast.Attribute):
        t=n.test.comparators[0].attr
        for s in n.body:
            if isinstance(s, ast.Assign) and isinstance(s.value, ast.Dict):
                prod[t]=[k.value for k in s.value.keys]
fc=[n for n in fac.body if isinstance(n, ast.ClassDef)][0]
meth={m.name:m for m in fc.body if isinstance(m, ast.FunctionDef)}
def gets(fn, seen=None):
    out=set()
    for n in ast.walk(fn):
        if isinstance(n, ast.Call) and isinstance(n.func, ast.Attribute) and n.func.attr=='get' and ast.unparse(n.func.value)=='value' and n.args and isinstance(n.args[0], ast.Constant): out.add(n.args[0].value)
        if isinstance(n, ast.Call) and ast.unparse(n.func)=='self._build_key_block': out|=gets(meth['_build_key_block'])
    return out
disp={}
for n in ast.walk(meth['create']):
    if isinstance(n, ast.If) and isinstance(n.test, ast.Compare):
        t=n.test.comparators[0].attr
        for s in n.body:
            if isinstance(s, ast.Return): disp[t]=s.value.func.attr
for t,keys in prod.items():
    cons=gets(meth[disp[t]])
    print(t, 'produced-not-consumed:', sorted(set(keys)-cons), ' consumed-not-produced:', sorted(cons-set(keys)))
