import ast, sys
sys.path.insert(0,'/tmp/proto')
from cfg import CFG, calls_in
t=ast.parse(open('/repo/kmip/pie/client.py').read())
cls=[n for n in t.body if isinstance(n, ast.ClassDef) and n.name=='ProxyKmipClient'][0]
for m in cls.body:
    if not isinstance(m, ast.FunctionDef): continue
    if not any(ast.unparse(d)=='is_connected' for d in m.decorator_list): continue
    g=CFG(m)
    pc=[n for n in g.nodes if n.kind=='stmt' and any(ast.unparse(c.func).startswith('self.proxy.') for c in calls_in(n,''))]
    tests=[n for n in g.nodes if n.kind=='test' and isinstance(n.stmt, ast.Compare) and 'ResultStatus.SUCCESS' in ast.unparse(n.stmt)]
    rets=[n for n in g.nodes if isinstance(n.stmt, ast.Return)]
    raises=[n for n in g.nodes if isinstance(n.stmt, ast.Raise) and 'KmipOperationFailure' in ast.unparse(n.stmt)]
    ok=None
    if tests:
        tn=tests[0]
        # remove T edge and see which returns remain reachable from proxy call
        Tsucc=[(s,l) for s,l in tn.succ if l=='T']
        tn.succ=[(s,l) for s,l in tn.succ if l!='T']
        reach=g.reachable(pc[0])
        ok=not any(r.id in reach for r in rets) and g.exit.id not in reach
        op=type(tn.stmt.ops[0]).__name__
    print('%-20s proxycalls=%d tests=%d returns=%d raisesKOF=%d dominated=%s %s' % (m.name,len(pc),len(tests),len(rets),len(raises),ok, op if tests else [ast.unparse(c.func) for c in calls_in(pc[0],'')][:1]))
