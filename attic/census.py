import ast, sys, os, collections
root='/repo/kmip/core'
shapes=collections.Counter()
examples={}
n=0
for dp,dn,fn in os.walk(root):
    for f in fn:
        if not f.endswith('.py'): continue
        p=os.path.join(dp,f)
        t=ast.parse(open(p).read())
        for c in ast.walk(t):
            if isinstance(c, ast.ClassDef):
                for m in c.body:
                    if isinstance(m, ast.FunctionDef) and m.name in ('read','write'):
                        n+=1
                        for s in m.body:
                            if isinstance(s, ast.Expr) and isinstance(s.value, ast.Constant): continue
                            k=(m.name, type(s).__name__)
                            if isinstance(s, ast.Expr) and isinstance(s.value, ast.Call):
                                k=(m.name,'call', ast.unparse(s.value.func))
                            if isinstance(s, ast.Assign):
                                k=(m.name,'assign', ast.unparse(s.targets[0]) if len(ast.unparse(s.targets[0]))<25 else 'T', ast.unparse(s.value.func) if isinstance(s.value, ast.Call) else type(s.value).__name__)
                            if isinstance(s,(ast.If,ast.While)):
                                k=(m.name,type(s).__name__, ast.unparse(s.test)[:50])
                            shapes[k]+=1
                            examples.setdefault(k,(p,c.name,s.lineno))
print(n,'methods')
for k,v in sorted(shapes.items(), key=lambda kv:(kv[0][0],-kv[1])):
    if v<=3: print(v,k,examples[k])
    else: print(v,k)
