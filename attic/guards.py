from schema import *
rows=[]
for q in sorted(IDX.classes):
    if not q.startswith('kmip.core'): continue
    c=IDX.classes[q]
    own={n.name:n for n in c.body if isinstance(n, ast.FunctionDef)}
    if 'read' not in own or 'write' not in own: continue
    if q.startswith('kmip.core.primitives') or q.startswith('kmip.core.utils'): continue
    for mode in ('read','write'):
        E=Extract(q, own[mode], mode)
        for e in E.events:
            if e['guards']:
                rows.append((q.replace('kmip.core.',''), mode, e['tag'] or '~'+e['ident'], ' & '.join(('' if pol else 'not ')+op+' '+v for (op,v),pol in e['guards'])))
import collections
for r in rows: print(r)
print(len(rows))
