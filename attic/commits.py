import ast, sys
sys.path.insert(0,'/tmp/proto')
from cfg import CFG, calls_in
t=ast.parse(open('/repo/kmip/services/server/engine.py').read())
cls=[n for n in t.body if isinstance(n, ast.ClassDef) and n.name=='KmipEngine'][0]
MUT_HELPERS=('_set_attributes_on_managed_object','_set_attribute_on_managed_object','_set_attribute_on_managed_object_by_index','_delete_attribute_from_managed_object')
def effects(node, pie):
    """return list of effects in this node: 'commit','mut'"""
    out=[]
    s=node.stmt
    if s is None or isinstance(s,(ast.Try,ast.ExceptHandler)): return out
    roots=[s]
    if isinstance(s, ast.For): roots=[s.iter]
    if isinstance(s, ast.With): roots=[i.context_expr for i in s.items]
    for r in roots:
        for n in ast.walk(r):
            if isinstance(n, ast.Call):
                f=ast.unparse(n.func)
                if f=='self._data_session.commit': out.append('commit')
                elif f=='self._data_session.add' or f.endswith('.delete'): out.append('mut')
                elif f.startswith('self.') and f[5:] in MUT_HELPERS: out.append('mut')
    if isinstance(s, ast.Assign):
        for tg in s.targets:
            if isinstance(tg, ast.Attribute) and isinstance(tg.value, ast.Name) and tg.value.id in pie and tg.attr in ('state',):
                out.append('mut')
    # order: as they appear textually: approximate mut before commit if same stmt
    return out
for m in cls.body:
    if not (isinstance(m, ast.FunctionDef) and m.name.startswith('_process_') and m.name not in ('_process_batch','_process_operation','_process_template_attribute')): continue
    g=CFG(m)
    pie={'managed_object','public_key','private_key','key'}
    # dataflow: set of (commits, dirty)
    IN={n.id:set() for n in g.nodes}
    IN[g.entry.id]={(0,False)}
    work=[g.entry]
    problems=set()
    while work:
        n=work.pop()
        outs=set()
        for (c,d) in IN[n.id]:
            for e in effects(n,pie):
                if e=='mut':
                    if c>=1: problems.add(('mutation after commit', n.stmt.lineno))
                    d=True
                elif e=='commit':
                    c=min(c+1,2); d=False
                    if c>=2: problems.add(('second commit on a path', n.stmt.lineno))
            outs.add((c,d))
        for (s_,lab) in n.succ:
            tgt=outs
            if lab=='exc':
                tgt=IN[n.id]  # exception before effect completes (approx)
            if not tgt<=IN[s_.id]:
                IN[s_.id]|=tgt; work.append(s_)
    ex=IN[g.exit.id]
    dirty_exit=[x for x in ex if x[1]]
    ncommit=sum(1 for n in g.nodes if 'commit' in effects(n,pie))
    print('%-32s commits_sites=%d exit_states=%s %s %s'%(m.name,ncommit,sorted(ex), 'DIRTY-EXIT' if dirty_exit else '', sorted(problems) or ''))
