import ast
t=ast.parse(open('/repo/kmip/services/server/engine.py').read())
cls=[n for n in t.body if isinstance(n, ast.ClassDef) and n.name=='KmipEngine'][0]
def chains(stmts, guards, out, fallthrough_guards=None):
    """collect (guards, return-expr); handle early-return idiom: after `if c: return`, rest is under not c"""
    g=list(guards)
    for s in stmts:
        if isinstance(s, ast.Return):
            out.append((tuple(g), ast.unparse(s.value) if s.value else 'None')); return True
        if isinstance(s, ast.Raise):
            out.append((tuple(g), 'RAISE '+ast.unparse(s.exc)[:40])); return True
        if isinstance(s, ast.If):
            c=ast.unparse(s.test)
            t_term=chains(s.body, g+[c], out)
            f_term=chains(s.orelse, g+['not ('+c+')'], out) if s.orelse else False
            if t_term and f_term: return True
            if t_term: g=g+['not ('+c+')']
            elif f_term: g=g+[c]
        if isinstance(s, ast.For):
            chains(s.body, g+['for '+ast.unparse(s.target)+' in '+ast.unparse(s.iter)], out)
    return False
for name in ('get_relevant_policy_section','is_allowed','_is_allowed_by_operation_policy'):
    fn=[m for m in cls.body if isinstance(m, ast.FunctionDef) and m.name==name][0]
    out=[]; chains(fn.body, [], out)
    print('==',name)
    for g,r in out: print('   ', ' & '.join(g) or 'TRUE', ' => ', r)
