"""Prototype: typestate analysis of KmipEngine handlers (types/states/mask bits)."""
import ast, sys, itertools
sys.path.insert(0, '/tmp/proto')
from cfg import CFG

ENG = ast.parse(open('/repo/kmip/services/server/engine.py').read())
POBJ = ast.parse(open('/repo/kmip/pie/objects.py').read())
KE = [n for n in ENG.body if isinstance(n, ast.ClassDef) and n.name == 'KmipEngine'][0]

# --- pie class table: class -> fields (class-level names + __init__ self.attrs), via MRO
PCLS = {n.name: n for n in POBJ.body if isinstance(n, ast.ClassDef)}


def pie_fields(cname, seen=None):
    c = PCLS[cname]
    f = set()
    for b in c.bases:
        bn = b.id if isinstance(b, ast.Name) else b.attr
        if bn in PCLS:
            f |= pie_fields(bn)
    for n in c.body:
        if isinstance(n, ast.Assign):
            for t in n.targets:
                if isinstance(t, ast.Name):
                    f.add(t.id)
        elif isinstance(n, ast.FunctionDef):
            f.add(n.name)
            if n.name == '__init__':
                for m in ast.walk(n):
                    if isinstance(m, ast.Attribute) and isinstance(m.value, ast.Name) and m.value.id == 'self' and isinstance(m.ctx, ast.Store):
                        f.add(m.attr)
    return f


# _object_map literal from engine __init__
OBJMAP = {}
for n in ast.walk(KE):
    if isinstance(n, ast.Assign) and ast.unparse(n.targets[0]) == 'self._object_map':
        for k, v in zip(n.value.keys, n.value.values):
            if isinstance(v, ast.Attribute):
                OBJMAP[k.attr] = v.attr
ALLT = frozenset(OBJMAP)
FIELDS = {t: pie_fields(c) for t, c in OBJMAP.items()}
STATES = frozenset(['PRE_ACTIVE', 'ACTIVE', 'DEACTIVATED', 'COMPROMISED', 'DESTROYED', 'DESTROYED_COMPROMISED'])
HAS_STATE = frozenset(t for t in ALLT if 'state' in FIELDS[t])


class Obj:
    __slots__ = ('types', 'states', 'bits')

    def __init__(self, types=ALLT, states=STATES, bits=frozenset()):
        self.types, self.states, self.bits = frozenset(types), frozenset(states), frozenset(bits)

    def key(self):
        return (self.types, self.states, self.bits)

    def __repr__(self):
        return 'Obj(%s|%s|%s)' % (','.join(sorted(self.types)), ','.join(sorted(self.states)) if self.states != STATES else '*', ','.join(sorted(self.bits)))


def enum_const(e, cls):
    # enums.<cls>.<X>
    if isinstance(e, ast.Attribute) and isinstance(e.value, ast.Attribute) and e.value.attr == cls:
        return e.attr
    return None


def freeze(env):
    return tuple(sorted((k, v.key() if isinstance(v, Obj) else v) for k, v in env.items()))


class Analysis:
    def __init__(self, fn):
        self.fn = fn
        self.g = CFG(fn)
        self.reports = []
        self.uses = []

    def obj_of(self, env, e):
        """expr -> var name if it denotes a tracked pie object"""
        if isinstance(e, ast.Name) and isinstance(env.get(e.id), Obj):
            return e.id
        return None

    def refine(self, env, test, pol):
        """Return refined env or None if infeasible."""
        env = dict(env)
        if isinstance(test, ast.UnaryOp) and isinstance(test.op, ast.Not):
            return self.refine(env, test.operand, not pol)
        if isinstance(test, ast.BoolOp):
            if (isinstance(test.op, ast.And) and pol) or (isinstance(test.op, ast.Or) and not pol):
                for v in test.values:
                    env = self.refine(env, v, pol)
                    if env is None:
                        return None
                return env
            return env  # no refinement on disjunction
        if isinstance(test, ast.Call) and isinstance(test.func, ast.Name) and test.func.id == 'hasattr' and len(test.args) == 2:
            v = self.obj_of(env, test.args[0])
            if v and isinstance(test.args[1], ast.Constant):
                f = test.args[1].value
                o = env[v]
                ts = frozenset(t for t in o.types if (f in FIELDS[t]) == pol)
                if not ts:
                    return None
                env[v] = Obj(ts, o.states, o.bits)
            return env
        if isinstance(test, ast.Call) and isinstance(test.func, ast.Name) and test.func.id == 'isinstance' and len(test.args) == 2:
            v = self.obj_of(env, test.args[0])
            if v and isinstance(test.args[1], ast.Attribute):
                cname = test.args[1].attr

                def issub(c, base):
                    if c == base:
                        return True
                    for b in PCLS[c].bases:
                        bn = b.id if isinstance(b, ast.Name) else b.attr
                        if bn in PCLS and issub(bn, base):
                            return True
                    return False
                o = env[v]
                ts = frozenset(t for t in o.types if issub(OBJMAP[t], cname) == pol)
                if not ts:
                    return None
                env[v] = Obj(ts, o.states, o.bits)
            return env
        if isinstance(test, ast.Compare) and len(test.ops) == 1:
            l, op, r = test.left, test.ops[0], test.comparators[0]
            # x._object_type / x.object_type  ==/!= ObjectType.T
            if isinstance(l, ast.Attribute) and l.attr in ('_object_type', 'object_type'):
                v = self.obj_of(env, l.value)
                if v:
                    o = env[v]
                    c = enum_const(r, 'ObjectType')
                    vals = None
                    if c:
                        vals = {c}
                    elif isinstance(r, (ast.List, ast.Tuple)):
                        vals = {enum_const(x, 'ObjectType') for x in r.elts}
                    if vals:
                        eq = isinstance(op, (ast.Eq, ast.Is, ast.In))
                        keep = (lambda t: (t in vals)) if (eq == pol) else (lambda t: t not in vals)
                        ts = frozenset(t for t in o.types if keep(t))
                        if not ts:
                            return None
                        env[v] = Obj(ts, o.states, o.bits)
                return env
            if isinstance(l, ast.Attribute) and l.attr == 'state':
                v = self.obj_of(env, l.value)
                c = enum_const(r, 'State')
                if v and c:
                    o = env[v]
                    eq = isinstance(op, (ast.Eq, ast.Is))
                    ss = frozenset(s for s in o.states if ((s == c) == (eq == pol)))
                    if not ss:
                        return None
                    env[v] = Obj(o.types, ss, o.bits)
                return env
            # CONST in/not in masks
            c = enum_const(l, 'CryptographicUsageMask')
            if c is None and isinstance(l, ast.Name) and isinstance(env.get(l.id), tuple) and env[l.id][0] == 'maskconst':
                c = env[l.id][1]
            if c and isinstance(op, (ast.In, ast.NotIn)):
                tgt = None
                if isinstance(r, ast.Attribute) and r.attr == 'cryptographic_usage_masks':
                    tgt = self.obj_of(env, r.value)
                elif isinstance(r, ast.Name) and isinstance(env.get(r.id), tuple) and env[r.id][0] == 'masks_of':
                    tgt = env[r.id][1]
                if tgt:
                    present = isinstance(op, ast.In) == pol
                    o = env[tgt]
                    if present:
                        env[tgt] = Obj(o.types, o.states, o.bits | {c})
                return env
        return env

    def transfer(self, env, node):
        s = node.stmt
        env = dict(env)
        if s is None or isinstance(s, (ast.Try, ast.ExceptHandler)):
            return env
        # record attribute reads on tracked objects
        roots = [s]
        if isinstance(s, ast.For):
            roots = [s.iter]
        for r in roots:
            for n in ast.walk(r):
                if isinstance(n, ast.Attribute) and isinstance(n.ctx, ast.Load):
                    v = self.obj_of(env, n.value)
                    if v:
                        o = env[v]
                        missing = sorted(t for t in o.types if n.attr not in FIELDS[t])
                        if missing:
                            self.reports.append((self.fn.name, n.lineno, '%s.%s' % (v, n.attr), tuple(missing)))
                if isinstance(n, ast.Call) and ast.unparse(n.func).startswith('self._cryptography_engine.'):
                    for a in list(n.args) + [k.value for k in n.keywords]:
                        vv = None
                        if isinstance(a, ast.Attribute) and a.attr == 'value':
                            vv = self.obj_of(env, a.value)
                        elif isinstance(a, ast.Name) and isinstance(env.get(a.id), tuple) and env[a.id][0] == 'value_of':
                            vv = env[a.id][1]
                        if vv:
                            kw = [k.arg for k in n.keywords if k.value is a]
                            self.uses.append((self.fn.name, n.lineno, ast.unparse(n.func).split('.')[-1], kw[0] if kw else 'pos%d' % n.args.index(a), repr(env[vv])))
        if isinstance(s, ast.Assign) and len(s.targets) == 1:
            t = s.targets[0]
            v = s.value
            if isinstance(t, ast.Name):
                if isinstance(v, ast.Call) and ast.unparse(v.func) == 'self._get_object_with_access_controls':
                    env[t.id] = Obj()
                elif isinstance(v, ast.Attribute) and v.attr == 'cryptographic_usage_masks' and self.obj_of(env, v.value):
                    env[t.id] = ('masks_of', self.obj_of(env, v.value))
                elif isinstance(v, ast.Attribute) and v.attr == 'value' and self.obj_of(env, v.value):
                    env[t.id] = ('value_of', self.obj_of(env, v.value))
                elif enum_const(v, 'CryptographicUsageMask'):
                    env[t.id] = ('maskconst', enum_const(v, 'CryptographicUsageMask'))
                elif isinstance(v, ast.Name) and v.id in env:
                    env[t.id] = env[v.id]
                elif isinstance(v, ast.Subscript) and isinstance(v.value, ast.Name) and isinstance(env.get(v.value.id), tuple) and env[v.value.id][0] == 'list':
                    env[t.id] = env[v.value.id][1]
                elif isinstance(v, ast.List) and not v.elts:
                    env[t.id] = ('list', None)
                else:
                    env.pop(t.id, None)
            elif isinstance(t, ast.Attribute) and t.attr == 'state':
                vv = self.obj_of(env, t.value)
                c = enum_const(v, 'State')
                if vv and c:
                    o = env[vv]
                    self.reports.append((self.fn.name, s.lineno, 'TRANSITION', (tuple(sorted(o.states)), c)))
                    env[vv] = Obj(o.types, {c}, o.bits)
        if isinstance(s, ast.Expr) and isinstance(s.value, ast.Call) and isinstance(s.value.func, ast.Attribute) and s.value.func.attr == 'append':
            L = s.value.func.value
            if isinstance(L, ast.Name) and isinstance(env.get(L.id), tuple) and env[L.id][0] == 'list' and s.value.args:
                a = self.obj_of(env, s.value.args[0])
                if a:
                    cur = env[L.id][1]
                    o = env[a]
                    if cur is None:
                        env[L.id] = ('list', o)
                    else:
                        env[L.id] = ('list', Obj(cur.types | o.types, cur.states | o.states, cur.bits & o.bits))
        return env

    def run(self):
        g = self.g
        IN = {n.id: {} for n in g.nodes}   # id -> {frozen: env}
        IN[g.entry.id] = {(): {}}
        work = [g.entry]
        steps = 0
        while work:
            n = work.pop()
            steps += 1
            if steps > 200000:
                raise RuntimeError('diverge')
            for fz, env in list(IN[n.id].items()):
                if n.kind == 'test' and not isinstance(n.stmt, (ast.For,)):
                    out = self.transfer(env, n)
                    for s_, lab in n.succ:
                        if lab in ('T', 'F'):
                            e2 = self.refine(out, n.stmt, lab == 'T')
                        else:
                            e2 = out
                        if e2 is None:
                            continue
                        self.push(IN, s_, e2, work)
                else:
                    out = self.transfer(env, n)
                    if isinstance(n.stmt, ast.For) and isinstance(n.stmt.target, ast.Name):
                        it = n.stmt.iter
                        base = it.value if isinstance(it, ast.Subscript) else it
                        if isinstance(base, ast.Name) and isinstance(out.get(base.id), tuple) and out[base.id][0] == 'list' and out[base.id][1] is not None:
                            out[n.stmt.target.id] = out[base.id][1]
                        else:
                            out.pop(n.stmt.target.id, None)
                    for s_, lab in n.succ:
                        self.push(IN, s_, env if lab == 'exc' else out, work)
        return IN

    def push(self, IN, node, env, work):
        fz = freeze(env)
        if fz not in IN[node.id]:
            if len(IN[node.id]) > 64:
                return
            IN[node.id][fz] = env
            work.append(node)


if __name__ == '__main__':
    allrep = set()
    alluses = set()
    for m in KE.body:
        if isinstance(m, ast.FunctionDef) and m.name.startswith('_process_') and m.name not in ('_process_batch', '_process_operation', '_process_template_attribute'):
            a = Analysis(m)
            a.run()
            allrep |= set(a.reports)
            alluses |= set(a.uses)
    for r in sorted(allrep, key=lambda r: (r[0], r[1])):
        print(r)
    print('--- crypto uses')
    for u in sorted(alluses, key=lambda r: (r[0], r[1])):
        print(u)
