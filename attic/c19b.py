import ast
t=ast.parse(open('/repo/kmip/services/kmip_client.py').read())
cls=[n for n in t.body if isinstance(n, ast.ClassDef) and n.name=='KMIPProxy'][0]
for m in cls.body:
    if not isinstance(m, ast.FunctionDef): continue
    for n in ast.walk(m):
        if isinstance(n, ast.Call) and isinstance(n.func, ast.Name) and n.func.id.endswith('Result'):
            print(m.name, n.func.id, [ast.unparse(a) for a in n.args[:3]], [k.arg for k in n.keywords][:3])
        if isinstance(n, ast.Assign) and isinstance(n.targets[0], ast.Subscript) and isinstance(n.targets[0].slice, ast.Constant) and str(n.targets[0].slice.value).startswith('result_'):
            print(m.name, 'dict', n.targets[0].slice.value, '<-', ast.unparse(n.value))
