import ast, os
LEVELS={'info','warning','error','exception','critical','warn','log'}
for dp,dn,fn in os.walk('/repo/kmip'):
    if '/tests' in dp or '/demos' in dp: continue
    for f in fn:
        if not f.endswith('.py'): continue
        p=os.path.join(dp,f); t=ast.parse(open(p).read())
        for n in ast.walk(t):
            if isinstance(n, ast.Call) and isinstance(n.func, ast.Attribute) and n.func.attr in LEVELS:
                recv=ast.unparse(n.func.value)
                if 'log' not in recv.lower(): continue
                args=[]
                for a in n.args:
                    if isinstance(a, ast.Constant): continue
                    if isinstance(a, ast.Call) and isinstance(a.func, ast.Attribute) and a.func.attr=='format':
                        for x in a.args: 
                            if not isinstance(x, ast.Constant): args.append(ast.unparse(x).replace('\n',' '))
                    else: args.append(ast.unparse(a).replace('\n',' '))
                if args: print(p.replace('/repo/',''), n.lineno, n.func.attr, args)
