import ast, re
for path, cname in (('/repo/kmip/services/kmip_client.py','KMIPProxy'),('/repo/kmip/pie/client.py','ProxyKmipClient')):
    t=ast.parse(open(path).read())
    cls=[n for n in t.body if isinstance(n, ast.ClassDef) and n.name==cname][0]
    tot=0; diff=[]
    for m in cls.body:
        if not isinstance(m, ast.FunctionDef): continue
        for n in ast.walk(m):
            if isinstance(n, ast.Call) and n.keywords and (ast.unparse(n.func).startswith('payloads.') or ast.unparse(n.func).startswith('self.proxy.') or ast.unparse(n.func).startswith('self._')):
                for k in n.keywords:
                    if k.arg is None: continue
                    v=ast.unparse(k.value)
                    tot+=1
                    norm=lambda s: re.sub('[^a-z]','',s.lower())
                    if norm(k.arg) not in norm(v) and norm(v) not in norm(k.arg) and not isinstance(k.value, ast.Constant):
                        diff.append((m.name, ast.unparse(n.func), k.arg, v[:50]))
    print(cname, 'keyword bindings:', tot, 'name-different:', len(diff))
    for d in diff: print('   ', d)
