"""Prototype: TTLV schema extraction from read()/write() ASTs (throwaway)."""
import ast, os, sys, collections, json

ROOT = '/repo'
PKG = 'kmip/core'
VERSIONS = ['KMIP_1_0', 'KMIP_1_1', 'KMIP_1_2', 'KMIP_1_3', 'KMIP_1_4', 'KMIP_2_0']


def modname(path):
    rel = os.path.relpath(path, ROOT)[:-3].replace('/', '.')
    if rel.endswith('.__init__'):
        rel = rel[:-9]
    return rel


class Index:
    def __init__(self):
        self.mods = {}      # modname -> ast.Module
        self.classes = {}   # qualname (mod.Class[.Inner]) -> ClassDef
        self.cls_mod = {}
        self.imports = {}   # modname -> {alias: target qualname}
        for dp, dn, fn in os.walk(os.path.join(ROOT, 'kmip')):
            if '/tests' in dp or '/demos' in dp:
                continue
            for f in fn:
                if f.endswith('.py'):
                    p = os.path.join(dp, f)
                    m = modname(p)
                    self.mods[m] = ast.parse(open(p).read(), p)
        for m, t in self.mods.items():
            imp = {}
            for n in t.body:
                if isinstance(n, ast.Import):
                    for a in n.names:
                        imp[a.asname or a.name.split('.')[0]] = a.name if a.asname else a.name.split('.')[0]
                elif isinstance(n, ast.ImportFrom) and n.module:
                    for a in n.names:
                        imp[a.asname or a.name] = n.module + '.' + a.name
            self.imports[m] = imp

            def reg(body, prefix):
                for n in body:
                    if isinstance(n, ast.ClassDef):
                        q = prefix + '.' + n.name
                        self.classes[q] = n
                        self.cls_mod[q] = m
                        reg(n.body, q)
            reg(t.body, m)
        # payloads package re-exports
        init = self.mods.get('kmip.core.messages.payloads')

    def resolve(self, mod, expr):
        """Resolve a dotted expr (ast) in module `mod` to a qualified name."""
        parts = []
        e = expr
        while isinstance(e, ast.Attribute):
            parts.append(e.attr)
            e = e.value
        if not isinstance(e, ast.Name):
            return None
        parts.append(e.id)
        parts.reverse()
        head = parts[0]
        imp = self.imports[mod]
        if head in imp:
            q = imp[head] + ('.' + '.'.join(parts[1:]) if len(parts) > 1 else '')
        else:
            q = mod + '.' + '.'.join(parts)
        # follow re-exports through package __init__ imports
        seen = set()
        while q not in self.classes and q not in seen:
            seen.add(q)
            pm, _, nm = q.rpartition('.')
            if pm in self.imports and nm in self.imports[pm]:
                q = self.imports[pm][nm]
            else:
                break
        return q

    def bases(self, q):
        c = self.classes[q]
        out = []
        for b in c.bases:
            r = self.resolve(self.cls_mod[q], b)
            if r in self.classes:
                out.append(r)
        return out

    def mro(self, q):
        out = [q]
        for b in self.bases(q):
            for x in self.mro(b):
                if x not in out:
                    out.append(x)
        return out

    def method(self, q, name):
        for k in self.mro(q):
            for n in self.classes[k].body:
                if isinstance(n, ast.FunctionDef) and n.name == name:
                    return k, n
        return None, None


IDX = Index()


def tag_of_expr(e):
    """enums.Tags.X / Tags.X -> 'X'"""
    if isinstance(e, ast.Attribute) and isinstance(e.value, (ast.Attribute, ast.Name)):
        v = e.value
        if (isinstance(v, ast.Attribute) and v.attr == 'Tags') or (isinstance(v, ast.Name) and v.id == 'Tags'):
            return e.attr
    return None


_fixed = {}


def class_fixed_tag(q):
    """Tag a class passes to its base __init__ (None if parameterised)."""
    if q in _fixed:
        return _fixed[q]
    _fixed[q] = None
    k, init = IDX.method(q, '__init__')
    res = None
    if init is not None and k.startswith('kmip.core') and not k.endswith('primitives.Base'):
        params = [a.arg for a in init.args.args]
        for n in ast.walk(init):
            if isinstance(n, ast.Call) and isinstance(n.func, ast.Attribute) and n.func.attr == '__init__':
                for a in list(n.args) + [kw.value for kw in n.keywords]:
                    t = tag_of_expr(a)
                    if t and t != 'DEFAULT':
                        res = t
                if res is None:
                    for kw in n.keywords:
                        if kw.arg == 'tag' and isinstance(kw.value, ast.Name):
                            # parameter: default?
                            pass
        if res is None and 'tag' in params:
            # default value of tag param
            d = init.args.defaults
            off = len(params) - len(d)
            i = params.index('tag')
            if i >= off:
                t = tag_of_expr(d[i - off])
                if t and t != 'DEFAULT':
                    res = ('default', t)
    _fixed[q] = res
    return res


def ctor_tag(mod, call):
    """Tag for an object built by `call` (ast.Call)."""
    if not isinstance(call, ast.Call):
        return None
    for kw in call.keywords:
        if kw.arg == 'tag':
            return tag_of_expr(kw.value)
    q = IDX.resolve(mod, call.func)
    if q in IDX.classes:
        for a in call.args:
            t = tag_of_expr(a)
            if t:
                return t
        ft = class_fixed_tag(q)
        if isinstance(ft, tuple):
            return ft[1]
        return ft
    return None


def is_raise_block(stmts):
    return any(isinstance(s, ast.Raise) for s in stmts)


def version_cond(test):
    """kmip_version <op> enums.KMIPVersion.X -> (op, X)"""
    if isinstance(test, ast.Compare) and len(test.ops) == 1:
        l, r = test.left, test.comparators[0]
        if isinstance(l, ast.Name) and l.id == 'kmip_version' and isinstance(r, ast.Attribute) and r.attr.startswith('KMIP_'):
            return (type(test.ops[0]).__name__, r.attr)
    return None


def eval_guard(g, v):
    iv = VERSIONS.index(v)
    for (op, x), pol in g:
        ix = VERSIONS.index(x)
        r = {'Lt': iv < ix, 'LtE': iv <= ix, 'Gt': iv > ix, 'GtE': iv >= ix, 'Eq': iv == ix, 'NotEq': iv != ix}[op]
        if r != pol:
            return False
    return True


def recv_name(e):
    if isinstance(e, ast.Attribute) and isinstance(e.value, ast.Name) and e.value.id == 'self':
        return 'self.' + e.attr
    if isinstance(e, ast.Name):
        return e.id
    return ast.unparse(e)


class Extract:
    def __init__(self, q, fn, mode):
        self.q = q
        self.mod = IDX.cls_mod[q]
        self.fn = fn
        self.mode = mode  # 'read'|'write'
        self.streams = set()
        self.params = [a.arg for a in fn.args.args]
        if len(self.params) > 1:
            self.streams.add(self.params[1])
        self.assign = {}   # name -> last value expr
        self.alias = {}    # local -> self attr it is stored into
        self.events = []
        self.notes = []
        self.has_oversized = False
        self.pre(fn.body)
        self.walk(fn.body, [], None)

    def pre(self, body):
        for n in ast.walk(ast.Module(body=body, type_ignores=[])):
            if isinstance(n, ast.Assign) and len(n.targets) == 1:
                t = n.targets[0]
                if isinstance(n.value, ast.Call):
                    f = ast.unparse(n.value.func)
                    if f.endswith('BytearrayStream'):
                        self.streams.add(recv_name(t))
                if isinstance(t, ast.Attribute) and isinstance(t.value, ast.Name) and t.value.id == 'self' and isinstance(n.value, ast.Name):
                    self.alias.setdefault(n.value.id, t.attr)
            if isinstance(n, ast.Call) and isinstance(n.func, ast.Attribute) and n.func.attr == 'append' and n.args and isinstance(n.args[0], ast.Name):
                self.alias.setdefault(n.args[0].id, recv_name(n.func.value).replace('self.', ''))

    def walk(self, stmts, guards, ctx):
        for s in stmts:
            if isinstance(s, ast.Assign) and len(s.targets) == 1:
                self.assign[recv_name(s.targets[0])] = s.value
                self.scan_calls(s, guards, ctx)
            elif isinstance(s, ast.Expr):
                self.scan_calls(s, guards, ctx)
            elif isinstance(s, ast.If):
                vc = version_cond(s.test)
                if vc:
                    self.walk(s.body, guards + [(vc, True)], ctx)
                    self.walk(s.orelse, guards + [(vc, False)], ctx)
                    continue
                tn = self.tagnext(s.test)
                if tn is not None:
                    kind = 'req' if is_raise_block(s.orelse) else 'opt'
                    self.walk(s.body, guards, ('tag', tn, kind))
                    if not is_raise_block(s.orelse):
                        self.walk(s.orelse, guards, ctx)
                    continue
                if self.mode == 'write':
                    pres = self.presence(s.test)
                    if pres is not None:
                        kind = 'req' if is_raise_block(s.orelse) else 'opt'
                        self.walk(s.body, guards, ('pres', pres, kind))
                        if not is_raise_block(s.orelse):
                            self.walk(s.orelse, guards, ctx)
                        continue
                # unknown condition: both arms, mark conditional
                self.walk(s.body, guards, ('cond', ast.unparse(s.test)[:40], 'opt'))
                self.walk(s.orelse, guards, ('cond', 'not ' + ast.unparse(s.test)[:40], 'opt'))
            elif isinstance(s, ast.While):
                tn = self.tagnext(s.test)
                self.walk(s.body, guards, ('tag', tn, 'rep') if tn else ('loop', ast.unparse(s.test), 'rep'))
            elif isinstance(s, ast.For):
                src = recv_name(s.iter) if not isinstance(s.iter, ast.Call) else ast.unparse(s.iter)
                if isinstance(s.target, ast.Name):
                    self.alias.setdefault(s.target.id, src.replace('self.', ''))
                self.walk(s.body, guards, ('for', src, 'rep'))
            elif isinstance(s, ast.Try):
                self.walk(s.body, guards, ctx)
                for h in s.handlers:
                    self.walk(h.body, guards, ctx)
                self.walk(s.orelse, guards, ctx)
            elif isinstance(s, (ast.Raise, ast.Return, ast.Pass, ast.Break, ast.Continue, ast.AugAssign)):
                pass
            else:
                self.notes.append('unhandled stmt %s at %d' % (type(s).__name__, s.lineno))

    def tagnext(self, test):
        if isinstance(test, ast.Call) and isinstance(test.func, ast.Attribute) and test.func.attr == 'is_tag_next':
            t = tag_of_expr(test.args[0])
            return t or ('?' + ast.unparse(test.args[0]))
        return None

    def presence(self, test):
        # self._x / self._x is not None / len(self._x) > 0
        if isinstance(test, ast.Attribute) and isinstance(test.value, ast.Name) and test.value.id == 'self':
            return test.attr
        if isinstance(test, ast.Compare) and len(test.ops) == 1 and isinstance(test.ops[0], ast.IsNot) and isinstance(test.comparators[0], ast.Constant) and test.comparators[0].value is None:
            l = test.left
            if isinstance(l, ast.Attribute) and isinstance(l.value, ast.Name) and l.value.id == 'self':
                return l.attr
        return None

    def scan_calls(self, s, guards, ctx):
        for n in ast.walk(s):
            if not (isinstance(n, ast.Call) and isinstance(n.func, ast.Attribute)):
                continue
            if n.func.attr == 'is_oversized':
                self.has_oversized = True
            if n.func.attr != self.mode:
                continue
            recv = n.func.value
            rn = recv_name(recv)
            if rn in self.streams or (isinstance(recv, ast.Call) and ast.unparse(recv.func) == 'super'):
                continue
            if not n.args:
                continue
            a0 = recv_name(n.args[0])
            if a0 not in self.streams:
                self.notes.append('call %s.%s on non-stream %s at %d' % (rn, self.mode, a0, n.lineno))
                continue
            self.event(rn, guards, ctx, n.lineno)

    def event(self, rn, guards, ctx, line):
        ident = rn.replace('self.', '') if rn.startswith('self.') else rn
        seen=set()
        while not rn.startswith('self.') and ident in self.alias and ident not in seen:
            seen.add(ident); ident = self.alias[ident]
        ident = ident.lstrip('_')
        tag = None
        kind = 'req'
        if ctx:
            kind = ctx[2]
            if ctx[0] == 'tag':
                tag = ctx[1]
        if tag is None:
            v = self.assign.get(rn)
            tag = ctor_tag(self.mod, v) if v is not None else None
        if tag is None and self.mode == 'write':
            tag = self.setter_tag(rn)
            if tag is None and not rn.startswith('self.') and rn in self.alias:
                tag = self.setter_tag('self.' + self.alias[rn]) if not self.alias[rn].startswith('self.') else self.setter_tag(self.alias[rn])
        self.events.append(dict(ident=ident, tag=tag, kind=kind, guards=list(guards), line=line, ctx=ctx[0] if ctx else None))

    def setter_tag(self, rn):
        if not rn.startswith('self.'):
            v = self.assign.get(rn)
            if isinstance(v, ast.Call):
                f = ast.unparse(v.func)
                if f.endswith('convert_template_attribute_to_attributes'):
                    src = recv_name(v.args[0])
                    st = self.setter_tag(src)
                    return {'TEMPLATE_ATTRIBUTE':'ATTRIBUTES','COMMON_TEMPLATE_ATTRIBUTE':'COMMON_ATTRIBUTES','PRIVATE_KEY_TEMPLATE_ATTRIBUTE':'PRIVATE_KEY_ATTRIBUTES','PUBLIC_KEY_TEMPLATE_ATTRIBUTE':'PUBLIC_KEY_ATTRIBUTES'}.get(st, 'ATTRIBUTES')
            return None
        attr = rn[5:]
        tags = set()
        for k in IDX.mro(self.q):
            for m in IDX.classes[k].body:
                if isinstance(m, ast.FunctionDef) and m.name == attr.lstrip('_') and any(isinstance(d, ast.Attribute) and d.attr == 'setter' for d in m.decorator_list):
                    for n in ast.walk(m):
                        if isinstance(n, ast.Call) and isinstance(n.func, ast.Attribute) and n.func.attr == 'append' and n.args:
                            t = ctor_tag(IDX.cls_mod[k], n.args[0])
                            if t: tags.add(t)
        for k in IDX.mro(self.q):
            c = IDX.classes[k]
            for m in c.body:
                if isinstance(m, ast.FunctionDef) and m.name not in ('read', 'write'):
                    for n in ast.walk(m):
                        if isinstance(n, ast.Assign) and len(n.targets) == 1 and recv_name(n.targets[0]) == rn:
                            t = ctor_tag(IDX.cls_mod[k], n.value)
                            if t:
                                tags.add(t)
                        # isinstance(value, Cls) in setter for this attr
                    if m.name == attr.lstrip('_') and any(isinstance(d, ast.Attribute) and d.attr == 'setter' for d in m.decorator_list):
                        for n in ast.walk(m):
                            if isinstance(n, ast.Call) and isinstance(n.func, ast.Name) and n.func.id == 'isinstance' and len(n.args) == 2:
                                q = IDX.resolve(IDX.cls_mod[k], n.args[1]) if isinstance(n.args[1], (ast.Attribute, ast.Name)) else None
                                if q in IDX.classes:
                                    ft = class_fixed_tag(q)
                                    if isinstance(ft, str):
                                        tags.add(ft)
                            if isinstance(n, ast.Compare) and isinstance(n.left, ast.Attribute) and n.left.attr == 'tag':
                                t = tag_of_expr(n.comparators[0])
                                if t:
                                    tags.add(t)
        if len(tags) == 1:
            return tags.pop()
        if len(tags) > 1:
            return '|'.join(sorted(tags))
        return None

    def flat(self, v):
        return [e for e in self.events if eval_guard(e['guards'], v)]


def main():
    total = 0
    diffs = []
    stats = collections.Counter()
    for q in sorted(IDX.classes):
        if not q.startswith('kmip.core'):
            continue
        c = IDX.classes[q]
        own = {n.name: n for n in c.body if isinstance(n, ast.FunctionDef)}
        if 'read' not in own or 'write' not in own:
            continue
        if q.startswith('kmip.core.primitives') or q.startswith('kmip.core.utils'):
            continue
        total += 1
        R = Extract(q, own['read'], 'read')
        W = Extract(q, own['write'], 'write')
        if not R.has_oversized:
            diffs.append((q, 'NO is_oversized in read'))
        for note in R.notes + W.notes:
            diffs.append((q, 'note: ' + note))
        for v in VERSIONS:
            r = R.flat(v)
            w = W.flat(v)
            rs = [(e['tag'] or '~' + e['ident']) for e in r]
            ws = [(e['tag'] or '~' + e['ident']) for e in w]
            ri = [e['ident'] for e in r]
            wi = [e['ident'] for e in w]
            ok = len(r) == len(w)
            if ok:
                for a, b in zip(r, w):
                    if a['tag'] and b['tag']:
                        if a['tag'] != b['tag'] and a['tag'] not in b['tag'].split('|'):
                            ok = False
                    elif a['ident'] != b['ident']:
                        ok = False
            if not ok:
                diffs.append((q, v, 'SEQ', rs, ws))
                stats['seq'] += 1
                break
            kd = [(a['tag'] or a['ident'], a['kind'], b['kind']) for a, b in zip(r, w) if a['kind'] != b['kind']]
            if kd:
                diffs.append((q, v, 'KIND', kd))
                stats['kind'] += 1
                break
    print('classes with read+write:', total)
    for d in diffs:
        print(d)
    print(stats)


if __name__ == '__main__':
    main()
