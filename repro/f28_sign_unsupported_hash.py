"""F28: Sign with a hashing algorithm the crypto engine's table does not hold (RIPEMD-160).  CryptographyEngine.sign called the result of
table.get(hash, None) without testing it: None() -> TypeError -> General Failure (verify_signature tests the same lookup).
Run: cd /repo && /venv/bin/python /verif/repro/f28_sign_unsupported_hash.py   (exit 1 = defect present)"""
import os, sys, shutil, warnings
warnings.filterwarnings('ignore')
exec(open(os.path.join(os.path.dirname(os.path.abspath(__file__)), 'eng.py')).read().split("e=new_engine()")[0])
e = new_engine()
M = enums.CryptographicUsageMask
r = run(e, req([(enums.Operation.CREATE, create_payload(masks=(M.ENCRYPT, M.DECRYPT, M.DERIVE_KEY)))], version=(1, 4)))
uid = r[0][3].unique_identifier
run(e, req([(enums.Operation.ACTIVATE, payloads.ActivateRequestPayload(unique_identifier=attributes.UniqueIdentifier(uid)))], version=(1, 4)))
cases = []


def cp(**kw):
    return attributes.CryptographicParameters(**kw)


# an RSA key pair for the asymmetric operations
ckp = payloads.CreateKeyPairRequestPayload(
    common_template_attribute=objects.TemplateAttribute(attributes=[F.create_attribute(enums.AttributeType.CRYPTOGRAPHIC_ALGORITHM, enums.CryptographicAlgorithm.RSA),
                                                                   F.create_attribute(enums.AttributeType.CRYPTOGRAPHIC_LENGTH, 1024)], tag=enums.Tags.COMMON_TEMPLATE_ATTRIBUTE),
    private_key_template_attribute=objects.TemplateAttribute(attributes=[F.create_attribute(enums.AttributeType.CRYPTOGRAPHIC_USAGE_MASK, [M.DECRYPT, M.SIGN])], tag=enums.Tags.PRIVATE_KEY_TEMPLATE_ATTRIBUTE),
    public_key_template_attribute=objects.TemplateAttribute(attributes=[F.create_attribute(enums.AttributeType.CRYPTOGRAPHIC_USAGE_MASK, [M.ENCRYPT, M.VERIFY])], tag=enums.Tags.PUBLIC_KEY_TEMPLATE_ATTRIBUTE))
r = run(e, req([(enums.Operation.CREATE_KEY_PAIR, ckp)], version=(1, 4)))
priv, pub = r[0][3].private_key_unique_identifier, r[0][3].public_key_unique_identifier
for u in (priv, pub):
    run(e, req([(enums.Operation.ACTIVATE, payloads.ActivateRequestPayload(unique_identifier=attributes.UniqueIdentifier(u)))], version=(1, 4)))
for pm in (enums.PaddingMethod.PSS, enums.PaddingMethod.PKCS1v15):
    cases.append(('Sign RSA %s with a hashing algorithm the engine has no table entry for (RIPEMD-160)' % pm.name, enums.Operation.SIGN,
                  payloads.SignRequestPayload(unique_identifier=priv, cryptographic_parameters=cp(padding_method=pm, hashing_algorithm=enums.HashingAlgorithm.RIPEMD_160,
                                                                                                      cryptographic_algorithm=enums.CryptographicAlgorithm.RSA), data=b'data')))
rc = 0
for label, op, pl in cases:
    r = run(e, req([(op, pl)], version=(1, 4)))
    print('%-80s -> %s' % (label, r[0][:2] if isinstance(r, list) else r))
    if isinstance(r, list) and r[0][1] == 'GENERAL_FAILURE':
        rc = 1
shutil.rmtree(d)
sys.exit(rc)
