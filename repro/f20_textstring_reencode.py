"""F20: a decoded TextString whose length is a multiple of 8 re-encodes with 8 spurious zero bytes (pinned tree).
Run from /repo with /venv/bin/python; prints the two encodings. Fixed by the commit recorded in known_findings.json."""
from kmip.core import primitives, utils, enums
t = primitives.TextString('abcdefgh', enums.Tags.NAME_VALUE)
s = utils.BytearrayStream(); t.write(s)
enc = bytes(s.buffer)
d = primitives.TextString(tag=enums.Tags.NAME_VALUE); d.read(utils.BytearrayStream(enc))
s2 = utils.BytearrayStream(); d.write(s2)
print(enc.hex()); print(bytes(s2.buffer).hex()); print('same bytes:', bytes(s2.buffer) == enc, 'padding_length after read:', d.padding_length)
