"""F18: KMIP 2.0 SetAttribute/ModifyAttribute with an attribute that has no AttributePolicy rule entry (e.g. Always Sensitive)."""
import sys, os
exec(open(os.path.join(os.path.dirname(__file__), 'engine_findings.py')).read().split("e=new_engine()")[0])
e = new_engine()
r = run(e, req([(enums.Operation.CREATE, create_payload())])); uid = r[0][3].unique_identifier
na = objects.NewAttribute(attribute=primitives.Boolean(True, tag=enums.Tags.ALWAYS_SENSITIVE))
r = run(e, req([(enums.Operation.SET_ATTRIBUTE, payloads.SetAttributeRequestPayload(unique_identifier=uid, new_attribute=na))], version=(2, 0)))
print('F18 SetAttribute Always Sensitive ->', r[0][:3])
r = run(e, req([(enums.Operation.MODIFY_ATTRIBUTE, payloads.ModifyAttributeRequestPayload(unique_identifier=uid, new_attribute=na))], version=(2, 0)))
print('F18 ModifyAttribute Always Sensitive ->', r[0][:3])
import shutil; shutil.rmtree(d)
