import warnings, logging, shutil
warnings.filterwarnings('ignore'); logging.disable(logging.CRITICAL)
exec(open(__import__('os').path.join(__import__('os').path.dirname(__import__('os').path.abspath(__file__)), 'eng.py')).read().split("e=new_engine()")[0])
e=new_engine()
nm=F.create_attribute(enums.AttributeType.NAME, attributes.Name.create('k1', enums.NameType.UNINTERPRETED_TEXT_STRING))
r=run(e, req([(enums.Operation.CREATE, create_payload(extra=[nm]))], version=(2,0))); print('create', r[0][:3]); uid=r[0][3].unique_identifier
cur=objects.CurrentAttribute(attribute=attributes.Name.create('k1', enums.NameType.UNINTERPRETED_TEXT_STRING))
r=run(e, req([(enums.Operation.DELETE_ATTRIBUTE, payloads.DeleteAttributeRequestPayload(unique_identifier=uid, current_attribute=cur))], version=(2,0))); print('DeleteAttribute 2.0 current=Name ->', r[0][:3])
og=F.create_attribute(enums.AttributeType.OBJECT_GROUP, 'g1')
shutil.rmtree(d)
