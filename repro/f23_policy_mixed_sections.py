"""F23: a policy object that mixes a section name ('preset'/'groups') with an object-type key is rejected with KeyError
('pop from an empty set') instead of ValueError; PolicyDirectoryMonitor.scan_policies only catches ValueError, so one such
file aborts the scan (and, in the monitor process, ends the monitoring loop) instead of being rejected as a whole.
Run: /venv/bin/python repro/f23_policy_mixed_sections.py   (exit 1 = defect present)"""
import json, os, sys, tempfile, logging
from kmip.core import policy as P
from kmip.services.server import monitor

d = tempfile.mkdtemp()
good = os.path.join(d, 'a_good.json')
bad = os.path.join(d, 'b_mixed.json')
json.dump({'team': {'preset': {'SYMMETRIC_KEY': {'GET': 'ALLOW_ALL'}}}}, open(good, 'w'))
json.dump({'mixed': {'preset': {'SYMMETRIC_KEY': {'GET': 'ALLOW_ALL'}}, 'CERTIFICATE': {'GET': 'ALLOW_ALL'}}}, open(bad, 'w'))
rc = 0
try:
    P.read_policy_from_file(bad)
    print('accepted?!'); rc = 1
except ValueError as e:
    print('ValueError (as specified):', e)
except Exception as e:
    print('DEFECT: %s: %s' % (type(e).__name__, e)); rc = 1
store = {}
m = monitor.PolicyDirectoryMonitor(d, store)
m.logger = logging.getLogger('x')
try:
    m.scan_policies()
    print('scan completed; policies in force:', sorted(store))
    if 'team' not in store:
        rc = 1
except Exception as e:
    print('DEFECT: scan_policies aborted with %s: %s; policies in force: %s' % (type(e).__name__, e, sorted(store))); rc = 1
sys.exit(rc)
