"""F30: encoding a payload that holds a TemplateAttribute under KMIP 2.0 changes the payload.  objects.convert_template_attribute_to_attributes
re-tagged the attribute value objects of the caller's TemplateAttribute in place (attribute_value.tag = <specific tag>), so the same value
encoded under KMIP 1.x afterwards carries the 2.0 tags and cannot be decoded.
Run: cd /repo && /venv/bin/python /verif/repro/f30_encoding_under_2_0_mutates_value.py   (exit 1 = defect present)"""
import sys, warnings
warnings.filterwarnings('ignore')
from kmip.core import enums, objects, utils, attributes
from kmip.core.factories import attributes as af
from kmip.core.messages import payloads
F = af.AttributeFactory()


def mk():
    attrs = [F.create_attribute(enums.AttributeType.CRYPTOGRAPHIC_ALGORITHM, enums.CryptographicAlgorithm.AES),
             F.create_attribute(enums.AttributeType.CRYPTOGRAPHIC_LENGTH, 128),
             F.create_attribute(enums.AttributeType.CRYPTOGRAPHIC_USAGE_MASK, [enums.CryptographicUsageMask.ENCRYPT]),
             F.create_attribute(enums.AttributeType.NAME, attributes.Name.create('k', enums.NameType.UNINTERPRETED_TEXT_STRING))]
    return payloads.CreateRequestPayload(enums.ObjectType.SYMMETRIC_KEY, objects.TemplateAttribute(attributes=attrs))


def enc(p, v):
    s = utils.BytearrayStream()
    p.write(s, kmip_version=v)
    return bytes(s.buffer)


ref = enc(mk(), enums.KMIPVersion.KMIP_1_2)
p = mk()
enc(p, enums.KMIPVersion.KMIP_2_0)
again = enc(p, enums.KMIPVersion.KMIP_1_2)
print('KMIP 1.2 encoding of the value after it was encoded under 2.0 equals the encoding of a fresh equal value:', again == ref)
rc = 0 if again == ref else 1
try:
    q = payloads.CreateRequestPayload()
    q.read(utils.BytearrayStream(again), kmip_version=enums.KMIPVersion.KMIP_1_2)
    print('and decodes to an equal value:', q == mk())
except Exception as ex:
    print('DEFECT: the bytes cannot be decoded under 1.2: %s: %s' % (type(ex).__name__, ex)); rc = 1
sys.exit(rc)
