import tempfile, os, logging, copy, sqlite3, io, shutil, warnings
warnings.filterwarnings('ignore')
from kmip.core import enums, objects, attributes, misc, secrets, policy as oppolicy
from kmip.core.messages import payloads, messages, contents
from kmip.services.server import engine
buf=io.StringIO(); h=logging.StreamHandler(buf); h.setLevel(logging.INFO); logging.getLogger().addHandler(h); logging.getLogger().setLevel(logging.INFO)
d=tempfile.mkdtemp(dir='/tmp/proto'); path=os.path.join(d,'db.sqlite')
e=engine.KmipEngine(policies=copy.deepcopy(oppolicy.policies), database_path=path)
canary=bytes.fromhex('c0ffee11deadbeefc0ffee11deadbeef')
kb=objects.KeyBlock(key_format_type=misc.KeyFormatType(enums.KeyFormatType.RAW), key_value=objects.KeyValue(objects.KeyMaterial(canary)), cryptographic_algorithm=attributes.CryptographicAlgorithm(enums.CryptographicAlgorithm.AES), cryptographic_length=attributes.CryptographicLength(128))
pl=payloads.RegisterRequestPayload(object_type=enums.ObjectType.SYMMETRIC_KEY, template_attribute=objects.TemplateAttribute(attributes=[]), managed_object=secrets.SymmetricKey(kb))
r=messages.RequestMessage(request_header=messages.RequestHeader(protocol_version=contents.ProtocolVersion(1,4), batch_count=contents.BatchCount(1)), batch_items=[messages.RequestBatchItem(operation=contents.Operation(enums.Operation.REGISTER), request_payload=pl)])
# lock the database for writing from another connection
c=sqlite3.connect(path, timeout=0.1); c.isolation_level=None; c.execute('BEGIN EXCLUSIVE')
import time; t=time.time()
resp,_,_=e.process_request(r, ('alice',None))
print('elapsed', round(time.time()-t,1), resp.batch_items[0].result_reason.value)
c.execute('ROLLBACK'); c.close()
log=buf.getvalue()
print('canary hex in INFO+ logs:', 'c0ffee11deadbeef' in log.lower(), ' escaped bytes form:', '\\xc0\\xff\\xee' in log)
i=log.find('parameters')
print(log[i-200:i+300] if i>=0 else log[-600:])
shutil.rmtree(d)
