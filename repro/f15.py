import tempfile, os, logging, copy, shutil, warnings
warnings.filterwarnings('ignore'); logging.disable(logging.CRITICAL)
exec(open(__import__('os').path.join(__import__('os').path.dirname(__import__('os').path.abspath(__file__)), 'eng.py')).read().split("e=new_engine()")[0])
e=new_engine()
r=run(e, req([(enums.Operation.CREATE, create_payload())])); print('create', r[0][0])
for val in (False, True):
    la=F.create_attribute(enums.AttributeType.SENSITIVE, val)
    r=run(e, req([(enums.Operation.LOCATE, payloads.LocateRequestPayload(attributes=[la]))])); print('Locate Sensitive=%s ->'%val, r[0][:2], r[0][3].unique_identifiers if r[0][3] else None)
r=run(e, req([(enums.Operation.GET_ATTRIBUTES, payloads.GetAttributesRequestPayload(unique_identifier='1', attribute_names=['Sensitive']))])); print([ (a.attribute_name.value, a.attribute_value.value) for a in r[0][3].attributes])
shutil.rmtree(d)
