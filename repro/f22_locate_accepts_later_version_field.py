"""F22: LocateRequestPayload.read has no trailing-data check, so a Locate request sent under KMIP 1.x that carries the KMIP 2.0
'Attributes' structure is accepted: the filter is silently dropped and the request is answered as an unfiltered Locate.
Run from /repo with /venv/bin/python. Expected (property C16): the 1.2 decode refuses the 2.0-only field."""
from kmip.core import enums, objects, primitives, utils
from kmip.core.factories import attributes as af
from kmip.core.messages import payloads
F = af.AttributeFactory()
p = payloads.LocateRequestPayload(attributes=[F.create_attribute(enums.AttributeType.OBJECT_GROUP, 'payments')])
s = utils.BytearrayStream(); p.write(s, kmip_version=enums.KMIPVersion.KMIP_2_0)
q = payloads.LocateRequestPayload()
try:
    q.read(utils.BytearrayStream(s.buffer), kmip_version=enums.KMIPVersion.KMIP_1_2)
    print('decoded under KMIP 1.2 with attributes =', q.attributes)
    print('PROPERTY VIOLATED: a KMIP 2.0-only field (Attributes) was accepted under KMIP 1.2 and the filter was dropped')
except Exception as e:
    print('refused:', type(e).__name__, e)
    print('PROPERTY HOLDS')
