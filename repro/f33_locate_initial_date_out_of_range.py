"""F33: Locate with an Initial Date filter far outside the calendar range (a legal 64-bit KMIP Date-Time, e.g. 2**62).
KmipEngine._is_valid_date formats the dates of its DEBUG record with time.asctime(time.gmtime(<date>)) - evaluated whether or not
DEBUG is enabled - and time.gmtime raises OverflowError / OSError / ValueError for values beyond the platform's range: not a KMIP
error, so a well-formed Locate is answered with General Failure (as soon as one candidate object does not match the date).
Run: cd /repo && /venv/bin/python /verif/repro/f33_locate_initial_date_out_of_range.py   (exit 1 = defect present)"""
import os, sys, shutil, warnings
warnings.filterwarnings('ignore')
os.makedirs('/tmp/proto', exist_ok=True)
exec(open(os.path.join(os.path.dirname(os.path.abspath(__file__)), 'eng.py')).read().split("e=new_engine()")[0])
e = new_engine()
rc = 0
r = run(e, req([(enums.Operation.CREATE, create_payload())]))
print('Create ->', r[0][:2])
for label, dates in (('one date, in range', [1500000000]), ('one date 2**62', [2 ** 62]), ('range up to 2**62', [0, 2 ** 62]), ('range from 2**62', [2 ** 62, 2 ** 63 - 1]), ('one date -2**62', [-2 ** 62])):
    attrs = [F.create_attribute(enums.AttributeType.INITIAL_DATE, d_) for d_ in dates]
    r = run(e, req([(enums.Operation.LOCATE, payloads.LocateRequestPayload(attributes=attrs))], version=(1, 4)))
    res = r[0][:3] if isinstance(r, list) else r
    print('Locate, Initial Date %s ->' % label, res)
    if isinstance(r, list) and r[0][1] == 'GENERAL_FAILURE':
        print('DEFECT: General Failure for a well-formed Locate request'); rc = 1
shutil.rmtree(d)
sys.exit(rc)
