"""F21: a policy file that is currently shadowed for a name and is then edited so that it no longer defines the name keeps its stale
entry on the shadow stack; removing the shadowing file afterwards resurrects the name from a file that no longer defines it.
Run from /repo with /venv/bin/python. Expected (property C18): after the last scan the store has no 'ops'."""
import json, os, tempfile, time, logging
logging.disable(logging.CRITICAL)
from kmip.services.server import monitor
from kmip.core import policy as oppolicy
import copy

d = tempfile.mkdtemp()
store = copy.deepcopy(oppolicy.policies) if hasattr(oppolicy, 'policies') else {}
store = dict((k, v) for k, v in store.items())
m = monitor.PolicyDirectoryMonitor(d, store, live_monitoring=False)
m.initialize_tracking_structures()
POL = {"CERTIFICATE": {"LOCATE": "ALLOW_ALL"}}
t = [time.time() - 100]


def write(name, content):
    p = os.path.join(d, name)
    with open(p, 'w') as f:
        json.dump(content, f)
    t[0] += 5
    os.utime(p, (t[0], t[0]))


write('a.json', {"ops": POL}); m.scan_policies()
write('b.json', {"ops": POL}); m.scan_policies()
write('a.json', {}); m.scan_policies()
os.remove(os.path.join(d, 'b.json')); m.scan_policies()
print('names in force:', sorted(k for k in store.keys() if k not in ('default', 'public')), '| owner map:', m.policy_map)
print('PROPERTY HOLDS' if 'ops' not in store else "PROPERTY VIOLATED: 'ops' is in force although no file defines it")
