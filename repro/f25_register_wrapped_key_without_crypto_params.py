"""F25: Register of a wrapped symmetric key whose Key Wrapping Data names the wrapping key (Encryption Key Information) without
Cryptographic Parameters - the parameters are optional in that structure.  ObjectFactory._build_cryptographic_parameters dereferences
None (AttributeError) and the request is answered with General Failure.
Run: cd /repo && /venv/bin/python /verif/repro/f25_register_wrapped_key_without_crypto_params.py   (exit 1 = defect present)"""
import os, sys, shutil, warnings
warnings.filterwarnings('ignore')
exec(open(os.path.join(os.path.dirname(os.path.abspath(__file__)), 'eng.py')).read().split("e=new_engine()")[0])
e = new_engine()
rc = 0
for label, eki in (('with cryptographic parameters', objects.EncryptionKeyInformation(unique_identifier='100', cryptographic_parameters=attributes.CryptographicParameters(block_cipher_mode=enums.BlockCipherMode.NIST_KEY_WRAP))),
                   ('without cryptographic parameters', objects.EncryptionKeyInformation(unique_identifier='100'))):
    kwd = objects.KeyWrappingData(wrapping_method=enums.WrappingMethod.ENCRYPT, encryption_key_information=eki, encoding_option=enums.EncodingOption.NO_ENCODING)
    kb = objects.KeyBlock(key_format_type=misc.KeyFormatType(enums.KeyFormatType.RAW), key_value=objects.KeyValue(objects.KeyMaterial(b'\x01' * 24)),
                          cryptographic_algorithm=attributes.CryptographicAlgorithm(enums.CryptographicAlgorithm.AES), cryptographic_length=attributes.CryptographicLength(128), key_wrapping_data=kwd)
    mask = F.create_attribute(enums.AttributeType.CRYPTOGRAPHIC_USAGE_MASK, [enums.CryptographicUsageMask.ENCRYPT])
    pl = payloads.RegisterRequestPayload(object_type=enums.ObjectType.SYMMETRIC_KEY, template_attribute=objects.TemplateAttribute(attributes=[mask]), managed_object=secrets.SymmetricKey(kb))
    # through the codec, as a server would receive it
    from kmip.core import utils
    s = utils.BytearrayStream(); pl.write(s)
    pl2 = payloads.RegisterRequestPayload(); pl2.read(utils.BytearrayStream(s.buffer))
    r = run(e, req([(enums.Operation.REGISTER, pl2)], version=(1, 2)))
    print('Register wrapped key, encryption key information %s ->' % label, r[0][:3])
    if r[0][1] == 'GENERAL_FAILURE':
        print('DEFECT: General Failure for a well-formed Register request'); rc = 1
    elif r[0][0] == 'SUCCESS':
        g = run(e, req([(enums.Operation.GET, payloads.GetRequestPayload(unique_identifier=r[0][3].unique_identifier))], version=(1, 2)))
        kwd2 = g[0][3].secret.key_block.key_wrapping_data if g[0][0] == 'SUCCESS' else None
        print('   Get ->', g[0][:3], '; wrapping key named by the stored object:', kwd2.encryption_key_information.unique_identifier if kwd2 is not None else None)
        if g[0][0] != 'SUCCESS' or kwd2 is None or kwd2.encryption_key_information.unique_identifier != '100':
            rc = 1
shutil.rmtree(d)
sys.exit(rc)
