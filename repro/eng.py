import tempfile, os, logging, copy
logging.disable(logging.CRITICAL)
from kmip.core import enums, objects, attributes, primitives, policy as oppolicy
from kmip.core.factories import attributes as af
from kmip.core.messages import payloads, messages, contents
from kmip.core import secrets, misc
from kmip.services.server import engine
d=tempfile.mkdtemp(dir='/tmp/proto')
def new_engine():
    return engine.KmipEngine(policies=copy.deepcopy(oppolicy.policies), database_path=os.path.join(d,'db.sqlite'))
F=af.AttributeFactory()
def req(items, version=(1,4), **hdr):
    h=messages.RequestHeader(protocol_version=contents.ProtocolVersion(*version), batch_count=contents.BatchCount(len(items)), **hdr)
    bis=[]
    for i,(op,pl) in enumerate(items):
        bis.append(messages.RequestBatchItem(operation=contents.Operation(op), request_payload=pl, unique_batch_item_id=contents.UniqueBatchItemID(bytes([i+1])) if len(items)>1 and pl is not None and not getattr(pl,'_noid',False) else None))
    return messages.RequestMessage(request_header=h, batch_items=bis)
def run(e, r, ident=('alice',None)):
    try:
        resp,_,_=e.process_request(r, ident)
        return [(bi.result_status.value.name, bi.result_reason.value.name if bi.result_reason else None, bi.result_message.value if bi.result_message else None, bi.response_payload) for bi in resp.batch_items]
    except Exception as ex:
        return 'REQUEST-LEVEL %s: %s'%(type(ex).__name__, ex)
def create_payload(masks=(enums.CryptographicUsageMask.ENCRYPT,), extra=()):
    attrs=[F.create_attribute(enums.AttributeType.CRYPTOGRAPHIC_ALGORITHM, enums.CryptographicAlgorithm.AES),
           F.create_attribute(enums.AttributeType.CRYPTOGRAPHIC_LENGTH, 128),
           F.create_attribute(enums.AttributeType.CRYPTOGRAPHIC_USAGE_MASK, list(masks))]+list(extra)
    return payloads.CreateRequestPayload(enums.ObjectType.SYMMETRIC_KEY, objects.TemplateAttribute(attributes=attrs))
e=new_engine()
# F8 placeholder carries over
r=run(e, req([(enums.Operation.CREATE, create_payload())])); uid=r[0][3].unique_identifier; print('create', r[0][0], uid)
r=run(e, req([(enums.Operation.GET, payloads.GetRequestPayload())]), ident=('alice',None)); print('F8 Get without id in a NEW request ->', r[0][0], r[0][1], 'returned uid', getattr(r[0][3],'unique_identifier',None))
e2=new_engine()
r=run(e2, req([(enums.Operation.GET, payloads.GetRequestPayload())])); print('F8 same probe on fresh engine, same db ->', r[0][:3])
# F6 groups + groupless default policy
r=run(e, req([(enums.Operation.GET, payloads.GetRequestPayload(unique_identifier=uid))]), ident=('alice',['staff'])); print('F6 owner with group info, default policy (no groups section) ->', r[0][:3])
r=run(e, req([(enums.Operation.GET, payloads.GetRequestPayload(unique_identifier=uid))]), ident=('alice',None)); print('F6 owner without group info ->', r[0][:2])
# F7 batch: item1 create ok, item 2 lacks batch id
p2=payloads.GetRequestPayload(); p2._noid=True
before=run(e, req([(enums.Operation.LOCATE, payloads.LocateRequestPayload())])); nb=len(before[0][3].unique_identifiers)
r=run(e, req([(enums.Operation.CREATE, create_payload()), (enums.Operation.GET, p2)])); print('F7 batch[create(id), get(no id)] ->', r)
after=run(e, req([(enums.Operation.LOCATE, payloads.LocateRequestPayload())])); print('F7 objects before/after:', nb, len(after[0][3].unique_identifiers))
# F9 unknown attribute name
la=objects.Attribute(attribute_name=objects.Attribute.AttributeName('x-custom'), attribute_value=attributes.CustomAttribute('v'))
r=run(e, req([(enums.Operation.LOCATE, payloads.LocateRequestPayload(attributes=[la]))])); print('F9 Locate x-custom ->', r[0][:3])
r=run(e, req([(enums.Operation.MODIFY_ATTRIBUTE, payloads.ModifyAttributeRequestPayload(unique_identifier=uid, attribute=la))])); print('F9 ModifyAttribute x-custom ->', r[0][:3])
r=run(e, req([(enums.Operation.DELETE_ATTRIBUTE, payloads.DeleteAttributeRequestPayload(unique_identifier=uid, attribute_name='x-custom'))])); print('F9 DeleteAttribute x-custom ->', r[0][:3])
# F10 MAC on opaque; Locate by algorithm with certificate stored
op=secrets.OpaqueObject(secrets.OpaqueObject.OpaqueDataType(enums.OpaqueDataType.NONE), secrets.OpaqueObject.OpaqueDataValue(b'\x01\x02'))
r=run(e, req([(enums.Operation.REGISTER, payloads.RegisterRequestPayload(object_type=enums.ObjectType.OPAQUE_DATA, template_attribute=objects.TemplateAttribute(attributes=[]), managed_object=op))])); ouid=r[0][3].unique_identifier if r[0][3] else None; print('register opaque', r[0][:3])
cp=attributes.CryptographicParameters(cryptographic_algorithm=enums.CryptographicAlgorithm.HMAC_SHA256)
r=run(e, req([(enums.Operation.MAC, payloads.MACRequestPayload(unique_identifier=attributes.UniqueIdentifier(ouid), cryptographic_parameters=cp, data=objects.Data(b'abc')))])); print('F10 MAC on opaque ->', r[0][:3])
print('-----')
# F10b Locate by Cryptographic Algorithm with a certificate in store
import binascii
cert=secrets.Certificate(enums.CertificateType.X_509, b'\x30\x03\x02\x01\x01')
r=run(e, req([(enums.Operation.REGISTER, payloads.RegisterRequestPayload(object_type=enums.ObjectType.CERTIFICATE, template_attribute=objects.TemplateAttribute(attributes=[]), managed_object=cert))])); print('register cert', r[0][:3])
la=F.create_attribute(enums.AttributeType.CRYPTOGRAPHIC_ALGORITHM, enums.CryptographicAlgorithm.AES)
r=run(e, req([(enums.Operation.LOCATE, payloads.LocateRequestPayload(attributes=[la]))])); print('F10b Locate by algorithm with certificate stored ->', r[0][:3])
# F11 Get with wrapping spec lacking cryptographic parameters
r=run(e, req([(enums.Operation.CREATE, create_payload(masks=(enums.CryptographicUsageMask.WRAP_KEY,)))])); wk=r[0][3].unique_identifier
r=run(e, req([(enums.Operation.ACTIVATE, payloads.ActivateRequestPayload(attributes.UniqueIdentifier(wk)))])); print('activate wrap key', r[0][:2])
spec=objects.KeyWrappingSpecification(wrapping_method=enums.WrappingMethod.ENCRYPT, encryption_key_information=objects.EncryptionKeyInformation(unique_identifier=wk), encoding_option=enums.EncodingOption.NO_ENCODING)
r=run(e, req([(enums.Operation.GET, payloads.GetRequestPayload(unique_identifier=uid, key_wrapping_specification=spec))])); print('F11 Get wrapping w/o cryptographic parameters ->', r[0][:3])
# F11b DeriveKey without cryptographic parameters
r=run(e, req([(enums.Operation.CREATE, create_payload(masks=(enums.CryptographicUsageMask.DERIVE_KEY,)))])); dk=r[0][3].unique_identifier
dp=attributes.DerivationParameters(derivation_data=b'abc')
ta=objects.TemplateAttribute(attributes=[F.create_attribute(enums.AttributeType.CRYPTOGRAPHIC_LENGTH, 128), F.create_attribute(enums.AttributeType.CRYPTOGRAPHIC_ALGORITHM, enums.CryptographicAlgorithm.AES), F.create_attribute(enums.AttributeType.CRYPTOGRAPHIC_USAGE_MASK, [enums.CryptographicUsageMask.ENCRYPT])])
r=run(e, req([(enums.Operation.DERIVE_KEY, payloads.DeriveKeyRequestPayload(object_type=enums.ObjectType.SYMMETRIC_KEY, unique_identifiers=[dk], derivation_method=enums.DerivationMethod.HASH, derivation_parameters=dp, template_attribute=ta))])); print('F11b DeriveKey w/o cryptographic parameters ->', r[0][:3])
# F12 register symmetric key with length mismatch -> ValueError from pie validate
kb=objects.KeyBlock(key_format_type=misc.KeyFormatType(enums.KeyFormatType.RAW), key_value=objects.KeyValue(objects.KeyMaterial(b'\x00'*16)), cryptographic_algorithm=attributes.CryptographicAlgorithm(enums.CryptographicAlgorithm.AES), cryptographic_length=attributes.CryptographicLength(256))
r=run(e, req([(enums.Operation.REGISTER, payloads.RegisterRequestPayload(object_type=enums.ObjectType.SYMMETRIC_KEY, template_attribute=objects.TemplateAttribute(attributes=[]), managed_object=secrets.SymmetricKey(kb)))])); print('F12 Register key length mismatch ->', r[0][:3])
# Decrypt with wrong padding -> ValueError from unpadder (third-party, not armed)
import shutil; shutil.rmtree(d)
