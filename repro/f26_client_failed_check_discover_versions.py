"""F26: KMIPProxy.check and KMIPProxy.discover_versions on a FAILED response.  A failed batch item carries no response payload; check() tests
`if payload:` for the first field only and then reads payload.usage_limits_count, and _process_discover_versions_batch_item reads
payload.protocol_versions unconditionally: the caller gets AttributeError instead of the status, reason and message the server answered
(the PyKMIP server answers every Check with Operation Not Supported, and DiscoverVersions under KMIP 1.0 likewise).
Run: cd /repo && /venv/bin/python /verif/repro/f26_client_failed_check_discover_versions.py   (exit 1 = defect present)"""
import sys, warnings
warnings.filterwarnings('ignore')
from unittest import mock
from kmip.core import enums
from kmip.core.messages import messages, contents
from kmip.services.kmip_client import KMIPProxy


def failed_response(op):
    bi = messages.ResponseBatchItem(operation=contents.Operation(op), result_status=contents.ResultStatus(enums.ResultStatus.OPERATION_FAILED),
                                    result_reason=contents.ResultReason(enums.ResultReason.OPERATION_NOT_SUPPORTED), result_message=contents.ResultMessage('not supported by this server'))
    hdr = messages.ResponseHeader(protocol_version=contents.ProtocolVersion(1, 2), time_stamp=contents.TimeStamp(0), batch_count=contents.BatchCount(1))
    return messages.ResponseMessage(response_header=hdr, batch_items=[bi])


rc = 0
c = KMIPProxy(host='127.0.0.1', port=5696)
for label, call, op in (('check', lambda: c.check(uuid='1', cryptographic_usage_mask=[enums.CryptographicUsageMask.ENCRYPT]), enums.Operation.CHECK),
                        ('discover_versions', lambda: c.discover_versions(), enums.Operation.DISCOVER_VERSIONS)):
    with mock.patch.object(KMIPProxy, '_send_and_receive_message', return_value=failed_response(op)):
        try:
            r = call()
            status = r['result_status'] if isinstance(r, dict) else r.result_status.value
            print('%s on a failed response -> reports %s' % (label, status))
            if status != enums.ResultStatus.OPERATION_FAILED:
                rc = 1
        except Exception as ex:
            print('DEFECT: %s on a failed response raises %s: %s' % (label, type(ex).__name__, ex)); rc = 1
sys.exit(rc)
