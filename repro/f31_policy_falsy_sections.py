"""F31: a policy file whose 'preset' or 'groups' section is a falsy non-object ([], "", null, 0, false) is accepted: the section is tested
for truthiness before its type, so `"preset": []` loads as a policy without sections while `"preset": ["x"]` is rejected with
"A policy section must be a JSON object".  The property wants a file that is not a valid policy document rejected as a whole.
Run: cd /repo && /venv/bin/python /verif/repro/f31_policy_falsy_sections.py   (exit 1 = defect present)"""
import json, os, sys, tempfile
from kmip.core import policy
good = {'SYMMETRIC_KEY': {'GET': 'ALLOW_ALL'}}
rc = 0
d = tempfile.mkdtemp()
for label, doc, valid in (
        ('preset is an object', {'p': {'preset': good}}, True),
        ('preset is an empty object', {'p': {'preset': {}}}, True),
        ('preset is a non-empty list', {'p': {'preset': ['x']}}, False),
        ('preset is an empty list', {'p': {'preset': []}}, False),
        ('preset is an empty string', {'p': {'preset': ''}}, False),
        ('preset is null', {'p': {'preset': None}}, False),
        ('preset is false next to valid groups', {'p': {'preset': False, 'groups': {'g': good}}}, False),
        ('groups is a non-empty list', {'p': {'groups': ['x']}}, False),
        ('groups is an empty list', {'p': {'groups': []}}, False),
        ('groups is null', {'p': {'groups': None}}, False),
        ('groups is zero next to a valid preset', {'a': {'preset': good}, 'p': {'preset': good, 'groups': 0}}, False)):
    path = os.path.join(d, 'policy.json')
    with open(path, 'w') as f:
        json.dump(doc, f)
    try:
        r = policy.read_policy_from_file(path)
        out = 'accepted -> %r' % (r,)
        ok = valid
    except ValueError as e:
        out = 'ValueError'
        ok = not valid
    print('%-40s %s%s' % (label, out[:90], '' if ok else '   <-- DEFECT'))
    if not ok:
        rc = 1
sys.exit(rc)
