"""F13: non-mapping JSON shapes in a policy file must be rejected with ValueError (the monitor catches only that)."""
import json, os, tempfile
from kmip.core import policy
docs = [[], {"p": []}, {"p": 7}, {"p": {"preset": "x"}}, {"p": {"CERTIFICATE": 5}}, {"p": {"groups": ["g"]}}, {"p": {"groups": {"g": 1}}},
        {"p": {"preset": {"CERTIFICATE": {"GET": 3}}}}, {"p": {"preset": {"CERTIFICATE": {"GET": "ALLOW_ALL"}}}}]
d = tempfile.mkdtemp()
for doc in docs:
    f = os.path.join(d, 'x.json')
    open(f, 'w').write(json.dumps(doc))
    try:
        r = policy.read_policy_from_file(f)
        print(json.dumps(doc), '-> ok', list(r))
    except ValueError as e:
        print(json.dumps(doc), '-> ValueError')
    except Exception as e:
        print(json.dumps(doc), '-> ESCAPES', type(e).__name__, e)
import shutil; shutil.rmtree(d)
