from kmip.core import enums, utils, primitives, objects
from kmip.core.messages import payloads, messages, contents
V=enums.KMIPVersion
def rt(obj, cls, v):
    s=utils.BytearrayStream(); obj.write(s, kmip_version=v)
    o=cls(); 
    try:
        o.read(utils.BytearrayStream(s.buffer), kmip_version=v); return 'ok', o
    except Exception as e: return 'READ-FAIL %s: %s'%(type(e).__name__, str(e)[:70]), None
# F1
p=payloads.CreateKeyPairResponsePayload(private_key_unique_identifier='1', public_key_unique_identifier='2',
    private_key_template_attribute=objects.TemplateAttribute(attributes=[], tag=enums.Tags.PRIVATE_KEY_TEMPLATE_ATTRIBUTE),
    public_key_template_attribute=objects.TemplateAttribute(attributes=[], tag=enums.Tags.PUBLIC_KEY_TEMPLATE_ATTRIBUTE))
print('F1 1.4:', rt(p, payloads.CreateKeyPairResponsePayload, V.KMIP_1_4)[0]); print('F1 2.0:', rt(p, payloads.CreateKeyPairResponsePayload, V.KMIP_2_0)[0])
# F2
h=messages.ResponseHeader(protocol_version=contents.ProtocolVersion(1,4), time_stamp=contents.TimeStamp(1), batch_count=contents.BatchCount(1), server_correlation_value=contents.ServerCorrelationValue('abc'))
r,o=rt(h, messages.ResponseHeader, V.KMIP_1_4); print('F2:', r, 'decoded scv =', o.server_correlation_value if o else None)
# F3
print('F3 activate:', rt(payloads.ActivateRequestPayload(), payloads.ActivateRequestPayload, V.KMIP_1_0)[0])
print('F3 revoke:', rt(payloads.RevokeRequestPayload(), payloads.RevokeRequestPayload, V.KMIP_1_0)[0])
# F4
try:
    i=primitives.Interval(4294967296); s=utils.BytearrayStream(); i.write(s); print('F4 wrote')
except Exception as e: print('F4 Interval(2**32):', type(e).__name__, e)
# F5
from kmip.core.factories.attribute_values import AttributeValueFactory
f=AttributeValueFactory()
print('F5 by name:', type(f.create_attribute_value(enums.AttributeType.CERTIFICATE_TYPE, enums.CertificateType.X_509)).__name__)
try: f.create_attribute_value_by_enum(enums.Tags.CERTIFICATE_TYPE, enums.CertificateType.X_509)
except Exception as e: print('F5 by tag:', type(e).__name__)
# non-ascii text (out of static reach, for the record)
try:
    s=utils.BytearrayStream(); primitives.TextString('é').write(s); print('text ok')
except Exception as e: print('non-ASCII TextString:', type(e).__name__, e)
