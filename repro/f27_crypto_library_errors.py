"""F27: value-dependent errors of the cryptography library surface as General Failure.  Well-formed Encrypt / Decrypt / DeriveKey
requests whose data the library rejects (undecryptable ciphertext, wrong GCM tag, IV of the wrong size, RSA input too long, derivation output
too long ...) make a library call raise ValueError / InvalidTag / TypeError outside any try of CryptographyEngine: the item is answered with
General Failure instead of Cryptographic Failure / Invalid Field.
Run: cd /repo && /venv/bin/python /verif/repro/f27_crypto_library_errors.py   (exit 1 = some case answers General Failure)"""
import os, sys, shutil, warnings
warnings.filterwarnings('ignore')
exec(open(os.path.join(os.path.dirname(os.path.abspath(__file__)), 'eng.py')).read().split("e=new_engine()")[0])
e = new_engine()
M = enums.CryptographicUsageMask
r = run(e, req([(enums.Operation.CREATE, create_payload(masks=(M.ENCRYPT, M.DECRYPT, M.DERIVE_KEY)))], version=(1, 4)))
uid = r[0][3].unique_identifier
run(e, req([(enums.Operation.ACTIVATE, payloads.ActivateRequestPayload(unique_identifier=attributes.UniqueIdentifier(uid)))], version=(1, 4)))
cases = []


def cp(**kw):
    return attributes.CryptographicParameters(**kw)


CBC = dict(block_cipher_mode=enums.BlockCipherMode.CBC, padding_method=enums.PaddingMethod.PKCS5, cryptographic_algorithm=enums.CryptographicAlgorithm.AES)
GCM = dict(block_cipher_mode=enums.BlockCipherMode.GCM, cryptographic_algorithm=enums.CryptographicAlgorithm.AES, tag_length=16)
cases.append(('Decrypt AES-CBC/PKCS5, ciphertext that does not decrypt to valid padding', enums.Operation.DECRYPT,
              payloads.DecryptRequestPayload(unique_identifier=uid, cryptographic_parameters=cp(**CBC), data=b'\x11' * 32, iv_counter_nonce=b'\x00' * 16)))
cases.append(('Decrypt AES-CBC/PKCS5, ciphertext that is not a whole number of blocks', enums.Operation.DECRYPT,
              payloads.DecryptRequestPayload(unique_identifier=uid, cryptographic_parameters=cp(**CBC), data=b'\x11' * 21, iv_counter_nonce=b'\x00' * 16)))
cases.append(('Decrypt AES-GCM with a wrong authentication tag', enums.Operation.DECRYPT,
              payloads.DecryptRequestPayload(unique_identifier=uid, cryptographic_parameters=cp(**GCM), data=b'\x11' * 20, iv_counter_nonce=b'\x00' * 12, auth_tag=b'\x22' * 16)))
cases.append(('Encrypt AES-CBC with an 8-byte IV', enums.Operation.ENCRYPT,
              payloads.EncryptRequestPayload(unique_identifier=uid, cryptographic_parameters=cp(**CBC), data=b'hello', iv_counter_nonce=b'\x00' * 8)))
cases.append(('Decrypt AES-CBC with an 8-byte IV', enums.Operation.DECRYPT,
              payloads.DecryptRequestPayload(unique_identifier=uid, cryptographic_parameters=cp(**CBC), data=b'\x11' * 32, iv_counter_nonce=b'\x00' * 8)))
# an RSA key pair for the asymmetric operations
ckp = payloads.CreateKeyPairRequestPayload(
    common_template_attribute=objects.TemplateAttribute(attributes=[F.create_attribute(enums.AttributeType.CRYPTOGRAPHIC_ALGORITHM, enums.CryptographicAlgorithm.RSA),
                                                                   F.create_attribute(enums.AttributeType.CRYPTOGRAPHIC_LENGTH, 1024)], tag=enums.Tags.COMMON_TEMPLATE_ATTRIBUTE),
    private_key_template_attribute=objects.TemplateAttribute(attributes=[F.create_attribute(enums.AttributeType.CRYPTOGRAPHIC_USAGE_MASK, [M.DECRYPT, M.SIGN])], tag=enums.Tags.PRIVATE_KEY_TEMPLATE_ATTRIBUTE),
    public_key_template_attribute=objects.TemplateAttribute(attributes=[F.create_attribute(enums.AttributeType.CRYPTOGRAPHIC_USAGE_MASK, [M.ENCRYPT, M.VERIFY])], tag=enums.Tags.PUBLIC_KEY_TEMPLATE_ATTRIBUTE))
r = run(e, req([(enums.Operation.CREATE_KEY_PAIR, ckp)], version=(1, 4)))
priv, pub = r[0][3].private_key_unique_identifier, r[0][3].public_key_unique_identifier
for u in (priv, pub):
    run(e, req([(enums.Operation.ACTIVATE, payloads.ActivateRequestPayload(unique_identifier=attributes.UniqueIdentifier(u)))], version=(1, 4)))
dk_attrs = objects.TemplateAttribute(attributes=[F.create_attribute(enums.AttributeType.CRYPTOGRAPHIC_ALGORITHM, enums.CryptographicAlgorithm.AES),
                                                 F.create_attribute(enums.AttributeType.CRYPTOGRAPHIC_LENGTH, 8 * 9000),
                                                 F.create_attribute(enums.AttributeType.CRYPTOGRAPHIC_USAGE_MASK, [M.ENCRYPT])])
cases.append(('DeriveKey HMAC (HKDF) asking for more output than HKDF can give (9000 bytes with SHA-256)', enums.Operation.DERIVE_KEY,
              payloads.DeriveKeyRequestPayload(object_type=enums.ObjectType.SECRET_DATA, unique_identifiers=[uid], derivation_method=enums.DerivationMethod.HMAC,
                                               derivation_parameters=attributes.DerivationParameters(cryptographic_parameters=cp(hashing_algorithm=enums.HashingAlgorithm.SHA_256), derivation_data=b'info'),
                                               template_attribute=dk_attrs)))
pb_attrs = objects.TemplateAttribute(attributes=[F.create_attribute(enums.AttributeType.CRYPTOGRAPHIC_USAGE_MASK, [M.ENCRYPT]),
                                                 F.create_attribute(enums.AttributeType.CRYPTOGRAPHIC_LENGTH, 128)])
cases.append(('DeriveKey PBKDF2 with iteration count 0', enums.Operation.DERIVE_KEY,
              payloads.DeriveKeyRequestPayload(object_type=enums.ObjectType.SECRET_DATA, unique_identifiers=[uid], derivation_method=enums.DerivationMethod.PBKDF2,
                                               derivation_parameters=attributes.DerivationParameters(cryptographic_parameters=cp(hashing_algorithm=enums.HashingAlgorithm.SHA_256), salt=b'salt', iteration_count=0),
                                               template_attribute=pb_attrs)))
cases.append(('DeriveKey ENCRYPT (AES-CBC) with an 8-byte IV', enums.Operation.DERIVE_KEY,
              payloads.DeriveKeyRequestPayload(object_type=enums.ObjectType.SECRET_DATA, unique_identifiers=[uid], derivation_method=enums.DerivationMethod.ENCRYPT,
                                               derivation_parameters=attributes.DerivationParameters(cryptographic_parameters=cp(**CBC), derivation_data=b'd' * 16, initialization_vector=b'\x00' * 8),
                                               template_attribute=pb_attrs)))
rc = 0
for label, op, pl in cases:
    r = run(e, req([(op, pl)], version=(1, 4)))
    print('%-80s -> %s' % (label, r[0][:2] if isinstance(r, list) else r))
    if isinstance(r, list) and r[0][1] == 'GENERAL_FAILURE':
        rc = 1
shutil.rmtree(d)
sys.exit(rc)
