"""F17: Register an X.509 certificate with a Cryptographic Length template attribute -> GENERAL_FAILURE."""
import sys, os
sys.argv = [sys.argv[0]]
exec(open(os.path.join(os.path.dirname(__file__), 'engine_findings.py')).read().split("e=new_engine()")[0])
e = new_engine()
cert = secrets.Certificate(enums.CertificateType.X_509, b'\x30\x03\x02\x01\x01')
ta = objects.TemplateAttribute(attributes=[F.create_attribute(enums.AttributeType.CRYPTOGRAPHIC_LENGTH, 2048)])
r = run(e, req([(enums.Operation.REGISTER, payloads.RegisterRequestPayload(object_type=enums.ObjectType.CERTIFICATE, template_attribute=ta, managed_object=cert))]))
print('F17 Register certificate with Cryptographic Length ->', r[0][:3])
import shutil; shutil.rmtree(d)
