"""F32: Register of a symmetric key whose Key Block carries no Cryptographic Algorithm / Cryptographic Length - both are optional in
the encoding and KeyBlock.read accepts their absence.  ObjectFactory._build_pie_key read `.value` on them unconditionally
(AttributeError) and the request was answered with General Failure.  Repaired by /repo 03317a8 (ValueError -> Invalid Field).
Run: cd /repo && /venv/bin/python /verif/repro/f32_register_key_block_without_algorithm.py   (exit 1 = defect present)"""
import os, sys, shutil, warnings
warnings.filterwarnings('ignore')
exec(open(os.path.join(os.path.dirname(os.path.abspath(__file__)), 'eng.py')).read().split("e=new_engine()")[0])
e = new_engine()
rc = 0
from kmip.core import utils
for label, alg, ln in (('with algorithm and length', attributes.CryptographicAlgorithm(enums.CryptographicAlgorithm.AES), attributes.CryptographicLength(128)),
                       ('without cryptographic algorithm', None, attributes.CryptographicLength(128)),
                       ('without cryptographic length', attributes.CryptographicAlgorithm(enums.CryptographicAlgorithm.AES), None)):
    kb = objects.KeyBlock(key_format_type=misc.KeyFormatType(enums.KeyFormatType.RAW), key_value=objects.KeyValue(objects.KeyMaterial(b'\x01' * 16)),
                          cryptographic_algorithm=alg, cryptographic_length=ln)
    mask = F.create_attribute(enums.AttributeType.CRYPTOGRAPHIC_USAGE_MASK, [enums.CryptographicUsageMask.ENCRYPT])
    pl = payloads.RegisterRequestPayload(object_type=enums.ObjectType.SYMMETRIC_KEY, template_attribute=objects.TemplateAttribute(attributes=[mask]), managed_object=secrets.SymmetricKey(kb))
    s = utils.BytearrayStream(); pl.write(s)
    pl2 = payloads.RegisterRequestPayload(); pl2.read(utils.BytearrayStream(s.buffer))   # through the codec, as a server would receive it
    r = run(e, req([(enums.Operation.REGISTER, pl2)], version=(1, 2)))
    print('Register symmetric key, key block %s ->' % label, r[0][:3])
    if r[0][1] == 'GENERAL_FAILURE':
        print('DEFECT: General Failure for a well-formed Register request'); rc = 1
shutil.rmtree(d)
sys.exit(rc)
