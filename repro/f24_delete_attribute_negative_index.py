"""F24: KMIP 1.x DeleteAttribute with a negative attribute index.  The handler only tests `index < len(list)`, so index -1 removes the LAST
instance of the attribute (an instance nobody addressed - no instance has index -1), and an index below -len(list) (or any negative index on
an object without instances) makes list.pop raise IndexError, which is answered with General Failure.
Run: cd /repo && /venv/bin/python /verif/repro/f24_delete_attribute_negative_index.py   (exit 1 = defect present)"""
import os, sys, shutil, warnings
warnings.filterwarnings('ignore')
exec(open(os.path.join(os.path.dirname(os.path.abspath(__file__)), 'eng.py')).read().split("e=new_engine()")[0])
e = new_engine()
rc = 0
names = [F.create_attribute(enums.AttributeType.NAME, attributes.Name.create(n, enums.NameType.UNINTERPRETED_TEXT_STRING), i) for i, n in enumerate(('first', 'second'))]
r = run(e, req([(enums.Operation.CREATE, create_payload(extra=names))], version=(1, 2)))
uid = r[0][3].unique_identifier


def names_of(uid):
    r = run(e, req([(enums.Operation.GET_ATTRIBUTES, payloads.GetAttributesRequestPayload(unique_identifier=uid, attribute_names=['Name']))], version=(1, 2)))
    return [a.attribute_value.name_value.value for a in r[0][3].attributes]


print('names before:', names_of(uid))
r = run(e, req([(enums.Operation.DELETE_ATTRIBUTE, payloads.DeleteAttributeRequestPayload(unique_identifier=uid, attribute_name='Name', attribute_index=-1))], version=(1, 2)))
print('DeleteAttribute(Name, index -1) ->', r[0][:3], '; names after:', names_of(uid))
if r[0][0] == 'SUCCESS':
    print('DEFECT: index -1 addressed no instance, yet one was deleted'); rc = 1
r = run(e, req([(enums.Operation.DELETE_ATTRIBUTE, payloads.DeleteAttributeRequestPayload(unique_identifier=uid, attribute_name='Name', attribute_index=-7))], version=(1, 2)))
print('DeleteAttribute(Name, index -7) ->', r[0][:3])
if r[0][1] == 'GENERAL_FAILURE':
    print('DEFECT: General Failure for an index that names no instance (expected Item Not Found)'); rc = 1
shutil.rmtree(d)
sys.exit(rc)
