"""F29: Register of a Split Key whose Prime Field Size (a KMIP Big Integer, arbitrary precision) does not fit a signed 64-bit column.
SplitKey.prime_field_size is stored in a sqlalchemy.BigInteger column; SQLite refuses the value at flush time (OverflowError: Python int too
large to convert to SQLite INTEGER), the commit fails and the well-formed Register is answered with General Failure.
Run: cd /repo && /venv/bin/python /verif/repro/f29_split_key_prime_field_size.py   (exit 1 = defect present)"""
import os, sys, shutil, warnings
warnings.filterwarnings('ignore')
exec(open(os.path.join(os.path.dirname(os.path.abspath(__file__)), 'eng.py')).read().split("e=new_engine()")[0])
from kmip.core import utils
rc = 0
for label, pfs in (('a 61-bit prime', 2 ** 61 - 1), ('a 127-bit prime (2**127 - 1)', 2 ** 127 - 1)):
    e = new_engine()
    kb = objects.KeyBlock(key_format_type=misc.KeyFormatType(enums.KeyFormatType.RAW), key_value=objects.KeyValue(objects.KeyMaterial(b'\x01' * 16)),
                          cryptographic_algorithm=attributes.CryptographicAlgorithm(enums.CryptographicAlgorithm.AES), cryptographic_length=attributes.CryptographicLength(128))
    sk = secrets.SplitKey(split_key_parts=3, key_part_identifier=1, split_key_threshold=2, split_key_method=enums.SplitKeyMethod.POLYNOMIAL_SHARING_PRIME_FIELD,
                          prime_field_size=pfs, key_block=kb)
    mask = F.create_attribute(enums.AttributeType.CRYPTOGRAPHIC_USAGE_MASK, [enums.CryptographicUsageMask.ENCRYPT])
    pl = payloads.RegisterRequestPayload(object_type=enums.ObjectType.SPLIT_KEY, template_attribute=objects.TemplateAttribute(attributes=[mask]), managed_object=sk)
    s = utils.BytearrayStream(); pl.write(s)
    pl2 = payloads.RegisterRequestPayload(); pl2.read(utils.BytearrayStream(s.buffer))
    r = run(e, req([(enums.Operation.REGISTER, pl2)], version=(1, 2)))
    print('Register split key with prime field size = %s ->' % label, r[0][:3] if isinstance(r, list) else r)
    if not isinstance(r, list) or r[0][1] == 'GENERAL_FAILURE':
        rc = 1
shutil.rmtree(d)
sys.exit(rc)
