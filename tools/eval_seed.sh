#!/bin/bash
# usage: tools/eval_seed.sh <patch.diff> <demo.py> [label]
# Creates a fresh scratch worktree of /repo HEAD, verifies the demonstration both ways, runs all 20 quick checks against the seeded tree, removes the worktree.
patch=$(readlink -f $1); demo=$(readlink -f $2); id=${3:-seed}
wt=/tmp/ev/$id
mkdir -p /tmp/ev; git -C /repo worktree remove --force $wt >/dev/null 2>&1; git -C /repo worktree add -q --detach $wt HEAD || exit 2
cd $wt
if ! git apply --check $patch 2>/dev/null; then echo "PATCH DOES NOT APPLY"; git -C /repo worktree remove --force $wt; exit 2; fi
git apply $patch; echo "== diff stat"; git diff --stat | tail -2
echo "== demo with change"; timeout 600 env PYTHONPATH=$wt /venv/bin/python $demo > /tmp/ev/$id.with 2>&1; echo "exit=$?"; tail -1 /tmp/ev/$id.with | cut -c1-200
git apply -R $patch
echo "== demo without change"; timeout 600 env PYTHONPATH=$wt /venv/bin/python $demo > /tmp/ev/$id.without 2>&1; echo "exit=$?"; tail -1 /tmp/ev/$id.without | cut -c1-200
git apply $patch
echo "== checks against seeded tree"
cd /verif
for p in C01 C02 C03 C04 C05 C06 C07 C08 C09 C10 C11 C12 C13 C14 C15 C16 C17 C18 C19 C20; do
  PV_REPO=$wt python3 -m pv check $p --no-write > /tmp/ev/$id.$p.txt 2>&1; rc=$?
  if [ $rc -ne 0 ]; then echo "$p exit=$rc"; grep -E "^  C|ANALYSIS" /tmp/ev/$id.$p.txt | cut -c1-300 | head -4; fi
done
git -C /repo worktree remove --force $wt
echo "== done"
