#!/usr/bin/env python3
"""Refresh the generated blocks of DESIGN.md section 11 (rules table, seeded-defect table)."""
import glob
import json
import os
import subprocess
import sys
root = os.path.dirname(os.path.dirname(os.path.abspath(__file__)))
rules = subprocess.run([sys.executable, os.path.join(root, 'tools', 'rules_table.py')], capture_output=True, text=True, check=True).stdout
rows = ['| seed | property | what the change does | needs, to manifest | first evaluation (before any strengthening) | reported by (now) | own check |', '|---|---|---|---|---|---|---|']
first_own = first_any = 0
n = own = anyc = 0
for f in sorted(glob.glob(os.path.join(root, 'seeded', '*', 'meta.json'))):
    m = json.load(open(f))
    n += 1
    by = m.get('detected_by') or []
    o = any(b.startswith(m['property'] + '.') for b in by)
    own += o
    anyc += bool(by)
    title = m['title']
    for pre in (m['id'] + ' - ', m['id'] + ': ', 'Seed ' + m['id'] + ' - ', 'seeded defect: ', 'seeded defect notes'):
        title = title.replace(pre, '')
    needs = m.get('needs_short') or (m['needs_to_manifest'][:160] + '...')
    fe = m.get('first_evaluation_detected_by')
    if fe is None:
        fe = [b.split(' ')[0] for b in by]
    first_own += any(x.startswith(m['property'] + '.') for x in fe)
    first_any += bool(fe)
    rows.append('| %s | %s | %s | %s | %s | %s | %s |' % (m['id'], m['property'], title.strip().replace('|', '/'), needs.replace('|', '/'), ', '.join(sorted(set(fe))) or 'not reported',
                '; '.join(by).replace('|', '/') or '**not reported** - ' + m.get('remark', '').replace('|', '/'), 'yes' if o else ('other property' if by else 'no')))
rows.append('')
rows.append('%d seeds kept. At first evaluation (checks as they were when the seed arrived): %d reported by the check of their own property, %d by some check, %d not reported. Now: %d by their own check, %d by some check, %d not reported.' % (n, first_own, first_any, n - first_any, own, anyc, n - anyc))
p = os.path.join(root, 'DESIGN.md')
s = open(p).read()


def put(s, tag, body):
    a = s.index('<!-- %s:BEGIN -->' % tag) + len('<!-- %s:BEGIN -->' % tag)
    b = s.index('<!-- %s:END -->' % tag)
    return s[:a] + '\n' + body.strip('\n') + '\n' + s[b:]


brow = ['| change | anchored property | what it does | first evaluation: checks not silent (1 = false VIOLATION, 2 = analysis error) | now |', '|---|---|---|---|---|']
nb = nb_first = nb_now = 0
for f in sorted(glob.glob(os.path.join(root, 'benign', '*', 'meta.json'))):
    m = json.load(open(f))
    nb += 1
    fe = m.get('first_evaluation_not_silent') or {}
    now = m.get('not_silent_now') or {}
    nb_first += not fe
    nb_now += not now
    brow.append('| %s | %s | %s | %s | %s |' % (m['id'], m['property'], m.get('title', '').replace('|', '/')[:170], ', '.join('%s:%s' % kv for kv in sorted(fe.items())) or 'all 20 silent',
                                              ', '.join('%s:%s' % kv for kv in sorted(now.items())) or 'all 20 silent'))
brow.append('')
brow.append('%d benign changes kept. All 20 checks silent: %d at first evaluation, %d now.' % (nb, nb_first, nb_now))
s = put(s, 'RULES', rules)
if '<!-- BENIGN:BEGIN -->' in s:
    s = put(s, 'BENIGN', '\n'.join(brow))
s = put(s, 'SEEDS', '\n'.join(rows))
open(p, 'w').write(s)
print('DESIGN.md updated: %d seeds' % n)
