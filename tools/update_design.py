#!/usr/bin/env python3
"""Refresh the generated blocks of DESIGN.md section 11 (rules table, seeded-defect table)."""
import glob
import json
import os
import subprocess
import sys
root = os.path.dirname(os.path.dirname(os.path.abspath(__file__)))
rules = subprocess.run([sys.executable, os.path.join(root, 'tools', 'rules_table.py')], capture_output=True, text=True, check=True).stdout
rows = ['| seed | property | what the change does | needs, to manifest | reported by | own check |', '|---|---|---|---|---|---|']
n = own = anyc = 0
for f in sorted(glob.glob(os.path.join(root, 'seeded', '*', 'meta.json'))):
    m = json.load(open(f))
    n += 1
    by = m.get('detected_by') or []
    o = any(b.startswith(m['property'] + '.') for b in by)
    own += o
    anyc += bool(by)
    title = m['title']
    for pre in (m['id'] + ' - ', m['id'] + ': ', 'Seed ' + m['id'] + ' - ', 'seeded defect: ', 'seeded defect notes'):
        title = title.replace(pre, '')
    needs = m.get('needs_short') or (m['needs_to_manifest'][:160] + '...')
    rows.append('| %s | %s | %s | %s | %s | %s |' % (m['id'], m['property'], title.strip().replace('|', '/'), needs.replace('|', '/'), '; '.join(by).replace('|', '/') or '**not reported** - ' + m.get('remark', '').replace('|', '/'), 'yes' if o else ('other property' if by else 'no')))
rows.append('')
rows.append('%d seeds kept; %d reported by the check of their own property, %d reported by some check, %d not reported.' % (n, own, anyc, n - anyc))
p = os.path.join(root, 'DESIGN.md')
s = open(p).read()


def put(s, tag, body):
    a = s.index('<!-- %s:BEGIN -->' % tag) + len('<!-- %s:BEGIN -->' % tag)
    b = s.index('<!-- %s:END -->' % tag)
    return s[:a] + '\n' + body.strip('\n') + '\n' + s[b:]


s = put(s, 'RULES', rules)
s = put(s, 'SEEDS', '\n'.join(rows))
open(p, 'w').write(s)
print('DESIGN.md updated: %d seeds' % n)
