#!/bin/bash
# usage: tools/seed_accept.sh <id>   copy a sub-agent's deliverables from /tmp/seeds/<id> into seeded/<id>, verify (demo both ways, unit suite with the patch, all checks) in scratch worktrees
id=$1
mkdir -p /verif/seeded/$id
cp /tmp/seeds/$id/patch.diff /tmp/seeds/$id/demo.py /tmp/seeds/$id/notes.md /verif/seeded/$id/ || exit 2
cd /verif
python3 tools/seed_update.py $id
tools/seed_tests.sh $id
