#!/bin/bash
# usage: tools/suite_on_patches.sh <seeded|benign> <id>...   unit suite on /repo HEAD + patch in a scratch worktree (removed afterwards); 6 at a time
kind=$1; shift
run_one() {
  kind=$1; id=$2; wt=/tmp/evt/${kind}_$id
  git -C /repo worktree remove --force $wt >/dev/null 2>&1
  git -C /repo worktree add -q --detach $wt HEAD || { echo "$id WORKTREE FAILED"; return; }
  if (cd $wt && git apply /verif/$kind/$id/patch.diff 2>/dev/null); then
    (cd $wt && PYTHONPATH=$wt /venv/bin/python -m pytest -q -p no:cacheprovider --timeout=900 kmip/tests/unit 2>&1 | tail -1 | sed "s/^/$kind $id: /")
  else
    echo "$kind $id: PATCH DOES NOT APPLY"
  fi
  git -C /repo worktree remove --force $wt
}
export -f run_one
mkdir -p /tmp/evt
printf "%s\n" "$@" | xargs -P 6 -I{} bash -c "run_one $kind {}"
