#!/usr/bin/env python3
"""Write / refresh benign/<id>/meta.json: what the change is, where it came from, what was run, which checks were not silent
when it arrived (first evaluation, recorded once) and which are not silent now (from tools/regress.py's record /tmp/pt/last.json).
usage: tools/benign_update.py [--first '<json dict id -> {prop: exit}>']"""
import json, os, sys
root = os.path.dirname(os.path.dirname(os.path.abspath(__file__)))
first = {}
if '--first' in sys.argv:
    first = json.loads(sys.argv[sys.argv.index('--first') + 1])
last = json.load(open('/tmp/pt/last.json')) if os.path.exists('/tmp/pt/last.json') else {}
for bid in sorted(os.listdir(os.path.join(root, 'benign'))):
    d = os.path.join(root, 'benign', bid)
    mp = os.path.join(d, 'meta.json')
    m = json.load(open(mp)) if os.path.exists(mp) else {'id': bid}
    notes = open(os.path.join(d, 'notes.md')).read() if os.path.exists(os.path.join(d, 'notes.md')) else ''
    m['property'] = bid[:3] if bid[0] == 'C' else 'C04'
    m.setdefault('title', (notes.strip().splitlines() or [''])[0].lstrip('# ').strip())
    m['files_changed'] = [l.split(' b/')[-1].strip() for l in open(os.path.join(d, 'patch.diff')) if l.startswith('diff --git')]
    m.setdefault('origin', 'written by me as a first probe' if bid.startswith('M') else
                 'written by a fresh sub-agent that was given only the JSON record of property %s and its own scratch worktree of /repo under /tmp (prompt: tools/agent_prompt.py benign); asked for two behaviour-preserving maintenance changes to the anchored code; verified by the agent with the full unit suite (3358 passed, the 2 baseline failures) and an ad-hoc differential script' % m['property'])
    m['what_i_ran'] = ['tools/regress.py: patch applied to a scratch copy of /repo/kmip under /tmp/pt, all 20 quick checks with PV_REPO=<copy> --no-write; tools/eval_benign.sh <id> --tests for the unit suite in a scratch worktree (removed afterwards)']
    if bid in first and 'first_evaluation_not_silent' not in m:
        m['first_evaluation_not_silent'] = first[bid]
    m.setdefault('first_evaluation_not_silent', {})
    now = {p: rc for p, rc in last.get('b' + bid, {}).items() if rc}
    m['not_silent_now'] = now
    json.dump(m, open(mp, 'w'), indent=1)
print('benign metas written')
