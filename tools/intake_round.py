#!/usr/bin/env python3
"""Intake of a round of sub-agent deliverables, in parallel.

usage: tools/intake_round.py defect <round> <srcroot> [-j N] <id>...
       tools/intake_round.py benign <round> <srcroot> [-j N] <id>...

<srcroot> holds one directory per agent (out_<Cxx>d / out_<Cxx>b) with <id>/patch.diff [demo.py] notes.md below it.
For every id, in a fresh detached scratch worktree of /repo HEAD under /tmp/ev10/<id> (removed afterwards):
  defect: git apply patch; demo.py (must exit non-zero); git apply -R; demo.py (must exit 0); git apply; pinned unit suite
  benign: git apply patch; pinned unit suite
The files are copied to seeded/<id>/ or benign/<id>/ and meta.json is written (what was run, with the observed results).
The checks themselves are run afterwards by tools/regress.py --only <ids> --write-meta, and tools/intake_round.py first <round> <id>...
freezes that result as the first evaluation."""
import glob
import json
import os
import re
import shutil
import subprocess
import sys
from concurrent.futures import ThreadPoolExecutor
root = os.path.dirname(os.path.dirname(os.path.abspath(__file__)))
SUITE = ['/venv/bin/python', '-m', 'pytest', '-q', '-p', 'no:cacheprovider', '--timeout=900', 'kmip/tests/unit']


def sh(cmd, cwd=None, env=None, timeout=1800):
    try:
        r = subprocess.run(cmd, cwd=cwd, env=env, capture_output=True, text=True, timeout=timeout)
        return r.returncode, (r.stdout + r.stderr)
    except subprocess.TimeoutExpired:
        return 124, 'TIMEOUT'


def find_src(srcroot, sid):
    c = glob.glob(os.path.join(srcroot, '*', sid, 'patch.diff'))
    return os.path.dirname(c[0]) if c else None


def one(kind, rnd, srcroot, sid):
    src = find_src(srcroot, sid)
    if not src:
        return sid, 'NO DELIVERABLE'
    wt = '/tmp/ev10/' + sid
    os.makedirs('/tmp/ev10', exist_ok=True)
    sh(['git', '-C', '/repo', 'worktree', 'remove', '--force', wt])
    rc, out = sh(['git', '-C', '/repo', 'worktree', 'add', '-q', '--detach', wt, 'HEAD'])
    if rc:
        return sid, 'WORKTREE FAILED ' + out[-200:]
    res = {}
    try:
        patch = os.path.join(src, 'patch.diff')
        rc, out = sh(['git', 'apply', '--check', patch], cwd=wt)
        if rc:
            return sid, 'PATCH DOES NOT APPLY ' + out[-200:]
        env = dict(os.environ, PYTHONPATH=wt)
        sh(['git', 'apply', patch], cwd=wt)
        if kind == 'defect':
            demo = os.path.join(src, 'demo.py')
            res['with'], o1 = sh(['/venv/bin/python', demo], cwd=wt, env=env, timeout=600)
            res['with_tail'] = o1.strip().splitlines()[-1][:300] if o1.strip() else ''
            sh(['git', 'apply', '-R', patch], cwd=wt)
            res['without'], o2 = sh(['/venv/bin/python', demo], cwd=wt, env=env, timeout=600)
            sh(['git', 'apply', patch], cwd=wt)
        rc, out = sh(SUITE, cwd=wt, env=env, timeout=3000)
        res['suite'] = out.strip().splitlines()[-1] if out.strip() else 'no output'
        res['suite_failed'] = sorted(set(re.findall(r'FAILED (\S+)', out)))
    finally:
        sh(['git', '-C', '/repo', 'worktree', 'remove', '--force', wt])
    d = os.path.join(root, 'seeded' if kind == 'defect' else 'benign', sid)
    os.makedirs(d, exist_ok=True)
    for f in ('patch.diff', 'demo.py', 'notes.md'):
        if os.path.exists(os.path.join(src, f)):
            shutil.copy(os.path.join(src, f), d)
    notes = open(os.path.join(d, 'notes.md')).read() if os.path.exists(os.path.join(d, 'notes.md')) else ''
    mp = os.path.join(d, 'meta.json')
    m = json.load(open(mp)) if os.path.exists(mp) else {'id': sid}
    m['property'] = sid[:3]
    m['round'] = rnd
    m['title'] = (notes.strip().splitlines() or [''])[0].lstrip('# ').strip()
    m['files_changed'] = [l.split(' b/')[-1].strip() for l in open(os.path.join(d, 'patch.diff')) if l.startswith('diff --git')]
    m['unit_suite_with_change'] = res['suite']
    m['unit_suite_failures'] = res['suite_failed']
    if kind == 'defect':
        nm = re.search(r'^#+ [^\n]*manifest[^\n]*\n(.*?)(?=^#+ |\Z)', notes, re.S | re.M | re.I)
        m['needs_to_manifest'] = ' '.join(nm.group(1).split())[:1200] if nm else ''
        m['demo_exit_with_change'], m['demo_exit_without_change'] = res['with'], res['without']
        m['demo_last_line_with_change'] = res['with_tail']
        m['origin'] = ('written by a fresh sub-agent (round %d) that was given only the JSON record of property %s, the extra paragraph of that round (quoted in DESIGN 11.11 for round 10 and 11.12 for round 11), and its own scratch worktree of /repo under /tmp (prompt: tools/agent_prompt.py defect); nothing from /verif' % (rnd, sid[:3]))
        m['what_i_ran'] = ['tools/intake_round.py defect: fresh detached worktree of /repo HEAD under /tmp/ev10/%s: git apply patch.diff; demo.py -> exit %s; git apply -R; demo.py -> exit %s; patch re-applied; pinned unit suite -> %s (failures: %s); worktree removed. Then tools/regress.py --only %s --write-meta (patched copy of /repo/kmip under /tmp/pt, all 20 quick checks with PV_REPO=<copy> --no-write)'
                           % (sid, res['with'], res['without'], res['suite'], ', '.join(x.split('::')[-1] for x in res['suite_failed']) or 'none', sid)]
    else:
        m['origin'] = ('written by a fresh sub-agent (round %d) that was given only the JSON record of property %s, a note asking for kinds of maintenance other than local renames / extract-helper, and its own scratch worktree of /repo under /tmp (prompt: tools/agent_prompt.py benign + the round-10 paragraph quoted in DESIGN 11.11); asked for two behaviour-preserving maintenance changes to the anchored code; verified by the agent with the full unit suite and an ad-hoc differential script' % (rnd, sid[:3]))
        m['what_i_ran'] = ['tools/intake_round.py benign: fresh detached worktree of /repo HEAD under /tmp/ev10/%s: git apply patch.diff; pinned unit suite -> %s (failures: %s); worktree removed. Then tools/regress.py --only %s --write-meta' % (sid, res['suite'], ', '.join(x.split('::')[-1] for x in res['suite_failed']) or 'none', sid)]
    json.dump(m, open(mp, 'w'), indent=1)
    ok = ('3358 passed' in res['suite']) and len(res['suite_failed']) <= 2
    if kind == 'defect':
        ok = ok and res['with'] != 0 and res['without'] == 0
    return sid, ('OK ' if ok else 'NOT CONFIRMED ') + json.dumps({k: v for k, v in res.items() if k != 'with_tail'})


def first(rnd, ids):
    for sid in ids:
        for kind in ('seeded', 'benign'):
            mp = os.path.join(root, kind, sid, 'meta.json')
            if not os.path.exists(mp):
                continue
            m = json.load(open(mp))
            if m.get('round') != rnd:
                continue
            if kind == 'seeded' and 'first_evaluation_detected_by' not in m:
                m['first_evaluation_detected_by'] = m.get('detected_by', [])
                m['first_evaluation_own_property'] = any(x.startswith(m['property'] + '.') for x in m.get('detected_by', []))
                m['first_evaluation_errors'] = sorted(c for c, r in m.get('checks_not_silent', {}).items() if r.get('exit') == 2)
            if kind == 'benign' and 'first_evaluation_not_silent' not in m:
                m['first_evaluation_not_silent'] = m.get('not_silent_now', {})
            json.dump(m, open(mp, 'w'), indent=1)


def main():
    a = sys.argv[1:]
    if a[0] == 'first':
        return first(int(a[1]), a[2:])
    kind, rnd, srcroot = a[0], int(a[1]), a[2]
    rest = a[3:]
    j = 6
    if rest[0] == '-j':
        j = int(rest[1]); rest = rest[2:]
    with ThreadPoolExecutor(j) as ex:
        for sid, r in ex.map(lambda s: one(kind, rnd, srcroot, s), rest):
            print(sid, r, flush=True)


if __name__ == '__main__':
    main()
