#!/usr/bin/env python3
"""Print the rules as implemented (id, text, obligations on the current tree, self-test variants) as markdown; used to keep DESIGN.md section 11 in step with the code."""
import importlib
import os
import sys
sys.path.insert(0, os.path.dirname(os.path.dirname(os.path.abspath(__file__))))
from pv.source import SourceSet
from pv.report import Ctx
from pv.__main__ import PROPS

for p in PROPS:
    mod = importlib.import_module('pv.rules.' + p.lower())
    ctx = Ctx(p, 'quick', SourceSet(None), 0)
    mod.run(ctx)
    vm = importlib.import_module('pv.variants.' + p.lower())
    nf = sum(1 for v in vm.VARIANTS if v['expect'] == 'fire')
    ns = sum(1 for v in vm.VARIANTS if v['expect'] == 'silent')
    per = {}
    for o in ctx.obligations:
        per[o[0]] = per.get(o[0], 0) + 1
    for f in ctx.findings:
        per[f.rule] = per.get(f.rule, 0) + 1
    print('\n**%s** - %d obligations on the current tree; self-test: %d seeded violations, %d semantics-preserving rewrites\n' % (p, len(ctx.obligations) + len(ctx.findings), nf, ns))
    print('| rule | sites | what is checked |')
    print('|---|---|---|')
    for rid, text in ctx.rules.items():
        print('| %s | %d | %s |' % (rid, per.get(rid, 0), text.replace('|', '\\|')))
    if ctx.not_decided:
        print('\nNot decided: ' + '; '.join(ctx.not_decided) + '.')
