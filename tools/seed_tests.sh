#!/bin/bash
# usage: tools/seed_tests.sh <seed-id>...   runs the pinned unit suite in a fresh scratch worktree with the seed applied; prints the summary line
for id in "$@"; do
  wt=/tmp/evt/$id
  mkdir -p /tmp/evt; git -C /repo worktree remove --force $wt >/dev/null 2>&1
  git -C /repo worktree add -q --detach $wt HEAD || exit 2
  (cd $wt && git apply /verif/seeded/$id/patch.diff && /venv/bin/python -m pytest -q -p no:cacheprovider --timeout=900 kmip/tests/unit 2>&1 | tail -1 | sed "s/^/$id: /")
  git -C /repo worktree remove --force $wt
done
