#!/usr/bin/env python3
"""Regenerate /verif/MANIFEST.json from the table below (kept in one place so it never drifts)."""
import json
import os

HERE = os.path.dirname(os.path.dirname(os.path.abspath(__file__)))

BASELINE_CMD = ("cd /repo && /venv/bin/python -m pytest -ra -q -p no:cacheprovider --timeout=900 "
                "--continue-on-collection-errors")

# id -> (technique, level text, level note)
CHECKS = {
 'C10': ('effect-set analysis over the intra-class call graph + lock-wrapper shape check + shared-state who-writes sweep',
         'Static lock discipline: every engine entry point whose transitive field effects meet per-request state is wrapped by '
         '_synchronize (a `with self._lock` around one call); no other shared mutable state; the session reads no per-request '
         'engine field. Exhaustive over the methods/functions of the four server modules. This is the whole mechanism the '
         'serialisability claim rests on; interleavings themselves are not explored (not needed once every request runs in '
         'one critical section).',
         'Trusted: threading.RLock semantics, SQLite single-writer behaviour under the lock, no run-time rebinding of methods.'),
 'C11': ('inter-procedural definite-assignment dataflow (CFG, must-write / may-read-before-write summaries)',
         'For every transient engine field (stored or mutated in place outside __init__) every path from the entry of '
         'process_request to any reachable read passes a store; exhaustive over all 45 reachable methods incl. decorator '
         'wrappers. Decides the re-initialisation mechanism on all paths; value equality of responses is not decided.',
         'Trusted: handlers are only reached through process_request (checked by C10.R1); transient state lives in KmipEngine fields.'),
 'C12': ('CFG dominance/path analysis of the session loop and framing functions; loop-consumption check over all decoder loops',
         'Exhaustive over the CFG paths of KmipSession.run/_handle_message_loop/_receive_request/_receive_bytes and the 39 decoder loops '
         'of kmip/core: parse-before-execute, exactly one engine-built response on every normal path, exception containment, framing '
         'arithmetic, size replacement, per-iteration input consumption. Decides these structural necessary conditions for all inputs at once; '
         'the behaviour of individual decoders on particular byte strings is not decided.',
         'Trusted: struct.unpack raises on short input; socket.recv(n) returns <= n bytes; Python exception semantics as modelled by the CFG.'),
 'C17': ('CFG dominance + reaching definitions (certificate/EKU/authenticate guards, identity provenance), effect sets for the failure path',
         'The single process_request call is dominated by the certificate-present test, the EKU tests under the enable flag and a normally '
         'completed authenticate(certificate, request); the identity argument has exactly one reaching definition; authenticate and the '
         'identity helpers return only established identities; failure arms answer AUTHENTICATION_NOT_SUCCESSFUL through a side-effect-free '
         'engine method; the two settings are plumbed unchanged from the configuration. Exhaustive over all CFG paths of the anchored functions.',
         'Trusted: ssl/cryptography.x509 accessors, the requests library, the SLUGS service.'),
 'C03': ('who-may-call sweep, argument provenance (reaching definitions), CFG dominance, decision-tree extraction compared with the documented policy table',
         'Exhaustive over every store access, choke-point call site (16), the three decision functions (all return paths and guard atoms) and all '
         '_owner/_client_identity stores in the package: single choke point, prescribed operation argument, allowed-edge dominance, default-deny '
         'decision trees, masking text, closed write-sets, Locate provenance. Decides the access-control mechanism for all policies/identities/'
         'histories at once; SQLAlchemy query semantics are trusted.',
         'Trusted: SQLAlchemy filter/one semantics; T_ACCESS_OP and the section-choice table transcribe the property statement and docs/source/server.rst.'),
 'C04': ('typestate abstract interpretation of all handlers (type x state x mask-bit domains, disjunctive, helpers inlined) + who-writes sweep',
         'The transition relation is extracted from the code for all paths and compared with the lifecycle table; the facts holding at each of the 9 '
         'CryptographyEngine call sites are compared with the required (type, ACTIVE, bit) rows; Destroy delete excludes ACTIVE. Sound for all '
         'operation histories because states are only changed at the 5 store sites found by the package-wide sweep.',
         'Trusted: enum identity semantics; rows of destroyed objects are gone (C07.R3). Bounds: inlining depth 3, 96 disjuncts (exit 2 if hit).'),
 'C16': ('constant folding of version tables + CFG dominance for gates; evaluation of Query per supported version; registry cross-check against the KMIP specification table',
         'Version list/acceptance/echo, 21 per-operation gates vs the specification, Query evaluated under each of the 6 versions against the gated dispatch '
         'table, DiscoverVersions provenance, encode-version dataflow in the session, attribute added/deprecated gating sites and agreement of the two '
         'attribute-version registries. Exhaustive over the finite version x operation x attribute grid by construction.',
         'Trusted: the frozen specification tables (T_OPMIN, T_ATTR_ADDED, T_ATTR_DEPRECATED).'),
 'C19': ('CFG dominance + reaching definitions over the 21 client operations and KMIPProxy; structural check of the receive loop; composition of the two version mappings',
         'Every data return of every client operation is dominated by the success test on the result\'s own status, the failure edge raises the '
         'result\'s own (status, reason, message); 48 result constructions take the triple from the same-named batch-item fields; decode errors '
         'propagate; framing loop bounded and complete; version mapping is the identity. Payload data field naming beyond the triple is not decided.',
         'Trusted: socket.recv semantics. Request decodability (R5) rests on the C01 schema agreement.'),
 'C07': ('structural check of the ORM table declarations, package-wide who-writes sweep for identifiers, CFG dominance (delete/commit, add -> commit -> identifier read)',
         'AUTOINCREMENT primary key on the base table and foreign-key identifiers on all 11 stored classes; nobody assigns identifiers; Destroy deletes and '
         'commits on every path; the 14 reads of new identifiers follow add() and commit(); lookups are exact-match single-row. These are the code-side '
         'necessary conditions; non-reuse is SQLite\'s AUTOINCREMENT guarantee and restart/kill behaviour is outside static reach.',
         'Trusted: SQLite AUTOINCREMENT, SQLAlchemy joined-table inheritance.'),
 'C08': ('CFG path analysis of the batch loop + typestate abstract interpretation (dirty/commit tracking) of all handlers + reaching definitions for the ID-placeholder fallback',
         'Exactly one echoed result per completed iteration, break only on error and STOP, exceptions contained per item, no raise in the loop outside the '
         'per-item try; no explicit raise with uncommitted or committed effects in any handler/helper context; closed placeholder write-set and a common '
         'fallback shape in all 14 handlers. Exhaustive over syntactic paths; implicit third-party exceptions after a mutation are not decided.',
         'Trusted: SQLAlchemy session flush semantics. Bounds: inlining depth 3, 96 disjuncts (exit 2 if hit).'),
 'C09': ('path-sensitive abstract interpretation of commit/mutation typestate per handler',
         'Every normal return of each of the 10 mutating handlers is reached with exactly one commit, nothing pending and nothing mutated after the commit; '
         'read-only handlers never commit; both key-pair halves precede the single commit. This is only the one-transaction-per-operation shape: crash points '
         'inside SQLite/SQLAlchemy are runtime events that no static argument in reach can enumerate, so atomicity/durability of one commit is trusted.',
         'Trusted: one Session.commit() = one atomic durable SQLite transaction.'),
 'C13': ('abstract interpretation with type refinement (attribute-on-union), value-class typing through the attribute factories, attribute-name set tracking for rule-table dereferences, explicit-raise classification',
         'All 171 attribute reads on managed objects, 32 reads on decoded attribute values, 35 rule-table dereferences and 166 explicit raises are decided '
         'for every syntactic path and calling context. Finds/decides the hasattr / applicability / supported-name guards the property rests on; implicit '
         'exceptions of third-party libraries for particular values are not decided.',
         'Trusted: wire-decoded provenance of payload objects; pie class table from kmip/pie/objects.py; T_USE-independent.'),
 'C14': ('CFG + reaching definitions over the Locate filter loop; kind typing (raw value vs KMIP wrapper) of both comparison operands per attribute arm; flag monotonicity; sort/slice shape',
         'Candidates from the access-filtered list only; match flag only lowered; all 13 filterable attributes reach a like-with-like comparison against a '
         'stored field; sort on initial_date descending between filter and slice; the three slice shapes under the four None-test combinations. Decides '
         'necessary structural conditions for all stores and filter conjunctions; per-predicate value semantics are not decided.',
         'Trusted: primitives.__eq__ returns NotImplemented for foreign types.'),
 'C15': ('constant-folded rule table + abstract interpretation with attribute-name sets: guard coverage at every mutation, effect sets, field/name agreement, stored-value provenance',
         'At every mutation of the loaded object reachable from Set/Modify/DeleteAttribute the possible attribute names are all client-modifiable/deletable; the '
         'fields written (names, app_specific_info, object_groups, sensitive) exclude the nine protected ones and match the getter; stored values derive from '
         'the request attribute value only. Exhaustive over all paths and helper calling contexts.',
         'Trusted: T_PROTECTED transcribes the property. Positional index semantics are value-level.'),
 'C18': ('key-provenance / guard-dominance analysis of every policy-store update (inductive reserved-name invariant), JSON shape taint in the parser, paired-update and shadow-stack position checks',
         'PARTIAL CLAIM: decides (a) built-in policies can never be replaced or removed, (b) a malformed document is rejected by ValueError before any structure is '
         'touched, (c) store/map/cache are updated in pairs and the shadow push precedes every overwrite with agreeing tuple positions. These are necessary conditions. '
         'The clause "each name maps to the most recently loaded definition after any sequence of file events" quantifies over runtime histories of a state '
         'machine and is NOT decided by this check (static analysis cannot bound it; model checking would).',
         'Trusted: json.loads shapes; DictProxy dict semantics; os.path.getmtime ordering.'),
 'C20': ('taint analysis: typed sources from the engine abstract interpreter (whole objects, .value, crypto results, secret payload fields) + reaching-definition taint elsewhere; sinks = INFO+ log calls and KMIP error messages',
         'All 110 logging calls of level >= INFO and 172 error-message sites in server, crypto engine, protocol, clients and pie are decided for the '
         'enumerated secret sources on all paths; default-level configuration is checked. Holds for all request histories because it quantifies over '
         'the sink sites, not over executions. Third-party exception texts are an assumption.',
         'Trusted: repr/str of pie objects print values (so whole objects are sources); logging level semantics.'),
 'C06': ('lookup-table name oracle (constant folding), sibling-implementation agreement (encrypt/decrypt, sign/verify), enum-class agreement at call sites, value provenance of generated material, primitive-per-arm oracle',
         'PARTIAL CLAIM (structure only): 37 table entries map to the primitive of the same name; siblings agree on tables, padded modes, padding objects, IV/AAD/tag '
         'handling and pad/unpad order; 22 payload-field -> parameter bindings agree in enumeration class; generated keys/IVs come from os.urandom / '
         'rsa.generate_private_key sized by the request; each derivation/MAC/wrap arm builds the primitive its KMIP name denotes. The numeric claims of C06 '
         '(outputs equal reference implementations, Decrypt inverts Encrypt for every input) are run-time values and are NOT decided.',
         'Trusted: the cryptography package; T_ALIAS and T_DERIVE name tables.'),
 'C05': ('producer/consumer key-set agreement, role-typed argument binding through single-definition locals, inverse-map check of the ORM getter/setter, sentinel analysis of the column decorators, sibling agreement of the attribute helpers',
         'PARTIAL CLAIM (structure only): for all 7 stored types the engine-produced dictionary keys equal the factory-consumed keys and read the stored field of that role; '
         '36 converter bindings are role-correct; 32 wrapping-data columns are mapped inversely by getter and setter and the 13+6 key sets agree five ways; enum/mask column '
         'decorators cannot lose a stored enumeration value; getter/index/setter/deleter helpers agree on the field per attribute; Get returns the access-checked object. '
         'Exact value fidelity through SQLite/SQLAlchemy/TTLV and restarts is NOT decided (run-time values).',
         'Trusted: SQLAlchemy column mapping; ROLE alias table.'),
 'C01': ('TTLV schema extraction from read()/write() ASTs and per-version sequence alignment; constant folding of primitive bounds vs struct formats; exhaustive evaluation of padding arithmetic over residues; registry sibling agreement',
         'PARTIAL CLAIM (structure): 105 structure classes x 6 versions (630 comparisons) reader/writer element sequences and presence agree; primitive bounds fit their '
         'pack formats; padding arithmetic correct for all 8 residues; by-name/by-tag attribute registries and both payload factories agree; Template<->Attributes '
         'converters inverse. These are necessary conditions of the round trip for every constructible value. Value-level byte/value identity for all values (e.g. non-ASCII text) is NOT decided.',
         'Trusted: struct module semantics; each child object obeys its own class schema (compositional).'),
 'C02': ('comparison of code constants with a specification table (independent oracle), CFG ordering check of all 105 structure writers, envelope dataflow',
         'PARTIAL CLAIM (structure): type codes, fixed lengths, header field sizes, byte order, pad words equal the KMIP TTLV table; every structure writer computes its '
         'length from the very stream holding its children after the last child write and before the header; the response envelope carries BatchCount = len(items), '
         'the request version, a time stamp, and reason/message exactly on failure arms; the session only sends engine-built responses. Byte identity with an '
         'independent encoder for all values is NOT decided.',
         'Trusted: T_TYPES/T_FIXED/T_SIZES transcribe KMIP section 9.1.'),
}

# rules added after the first plan (DESIGN.md section 11.2 lists every rule with its text as implemented)
ADDED = {
 'C11': ' Fifth round: set.add counts as in-place mutation of a transient field; prologue and readers share one critical section (R2, lifted from C10). Sixth round: dict fields that are pure memo tables (value computed from the key\'s inputs only) are not transient state.',
 'C10': ' Fifth round: R3 (no shared module state) also covers the authentication helpers that run on session threads. Seventh round: the session does not modify anything taken out of a structure it was handed at construction (engine, authentication settings: one object for all sessions) (R3). Eighth round: the engine lock is used by _synchronize only (R2); one KmipEngine is constructed, outside the accept loop, and handed to every session (R5).',
 'C19': ' Third round: batch item fields that failure responses omit are dereferenced only after the SUCCESS test or under a None test (R7). Fourth round: explicitly tagged request values carry the tag the request readers expect (R8). Fifth round: converters hand back everything a response carried (R9, lifted from C05.R11). Sixth round: _build_protocol_version is folded for every KMIPVersion and for every ordered pair of versions on one client object (R4 follows-current-version). Seventh round: R7 follows a batch item field held in a local (F26 repaired in /repo); a raise that depends on an item field other than the status sits behind the success edge of the status test (R9); primitive decoders detect short reads (R10, shared with C12.R7); a response obtained through a decoding helper counts as a decode site (R2). Eighth round: every response structure reads its optional fields in the order the server writes them, per version (R11).',
 'C17': ' Third round: the common-name list is the complete list of commonName attributes of the whole subject (R4 all-common-names). Fifth round: SLUGS connector - each 404 test looks at the response of its own lookup, groups come from that response, no except arm completes normally (R4). Sixth round: every [auth:*] section of the configuration reaches the session (R6). Seventh round: R3 is path-sensitive: the certificate-only identity is returned on no path on which an authentication connector was built, whatever bookkeeping (flag, list of plugins tried, early raise) the code uses.',
 'C08': ' Third round: executed results are withheld only for the size limit of that very request (R7, lifted from C12.R5). Fifth round: column converters never raise (R8, lifted from C05.R3). Sixth round: R1 is decided on every path through one iteration of the batch loop (path-sensitive constant propagation): one result per item, echo, fresh result fields, stop exactly on failure under STOP. Seventh round: the path simulation remembers the outcome of tests on opaque locals and non-emptiness of appended lists; log-only reads of the placeholder are not fallback reads (R5).',
 'C01': ' Added: BigInteger padding leaves room for the sign bit for every bit length (R3 sign-room); no constructor default shares a mutable container that decoders fill in place (R6). Third round: no encodable class overrides truthiness, because presence of fields is decided by `if self._field:` (R7). Fourth round: primitive decoders store the value they read, no normalisation (R8); the padding count kept after decoding is in 0..7 (R3; the unsound exemption for a skip-only guard was removed and the TextString reader repaired in /repo). Fifth round: reader and writer nest presence conditions alike (R2 nested); early returns under a version test are understood by the schema extractor. Sixth round: BigInteger.write is folded over a length abstraction (value known by bit length and sign, strings by length) for bit lengths 0..200, so the sign-room rule holds for any spelling of the writer; the attribute value registries are read by folding them for every member. Seventh round: a constructor default that is any object built by a call and filled in place by read() counts as shared (R6); encoders assign nothing but self.length and the conversion functions they call change only objects they built (R9; F30 repaired in /repo). Eighth round: a field is written only under its own presence test, not under that of a sibling field (R2).',
 'C02': ' Added: TextString/ByteString writers emit exactly len(value) value bytes, one struct-packed byte per counted element, then padding_length zero bytes (R6). Third round: BigInteger two\'s-complement sign room (R7, shared with C01.R3). Fourth round: padding count after decoding in 0..7 (R8, lifted from C01.R3). Fifth round: KMIP error texts cannot be empty - literals, or reviewed foreign-exception sites (R9). Sixth round: write_value of TextString/ByteString folded over value lengths 0..40 (exact byte counts, zero padding); the per-item envelope (status/reason/message) is decided on every path of one batch-loop iteration by path simulation. Seventh round: precompiled struct codecs and named pad words are canonicalised to the pack calls they abbreviate; the pad word is compared by width (R1); reviewed foreign exception texts are per callee (R9). Eighth round: no store into .value of a sized primitive after construction (R10); every error response of the session carries 1.0 before and the request\'s version after decoding (R4, shared with C16.R7).',
 'C03': ' Added: the policy parser allocates each per-type/per-section table inside the iteration that fills and stores it (R10). Fourth round: a try around an access-controlled load answers denied and absent in the same arm (R11). Fifth round: the policy table the decisions read is kept in step with the files (R12, lifted from C18.R5-R10). Sixth round: the decision functions are folded over a finite model of policies x group lists x ownership (648 combinations) and compared with the decision table (R5); a per-call memo table in the lister is accepted only if its key determines the decision (R4); identity store and decisions share one critical section (R13, lifted from C10). Seventh round: session.delete is accepted only for the object the choke point returned for Operation.DESTROY; len(session.new/dirty/deleted) is not a store access (R1). Eighth round: the decision function is folded over histories as well (544): a second decision after the store changed, after another requester or another object, equals that of a fresh engine (R5).',
 'C04': ' Added: a stored object whose value is used as derivation data is gated like the keying object (R3 derive_key.derivation_data). Fourth round: lifecycle changes are committed before the handler returns (R5, lifted from C09.R2). Fifth round: the usage mask the guards test is exactly the stored one (R6, lifted from C05.R3). Sixth round: the revocation reason is tracked as a path fact by the interpreter, so COMPROMISED-only-under-compromise holds wherever the reason test sits.',
 'C05': ' Added: attribute rows fetched from the store are never linked into a second object (R6); only Activate/Revoke/Destroy and the attribute operations modify a loaded instance (R7). Third round: no truthiness filter on stored values in the conversion chain (R8). Fourth round: numeric columns use exact integer types (R9). Fifth round: column converters are total and decode exactly the stored mask bits (R3); flag sets are OR-ed, never summed (R10); converters use everything they extract on every path (R11). Seventh round: no ProxyKmipClient method leaves a possibly supplied parameter unread on a return guarded by the client configuration alone (R12, path-sensitive over 69 method/parameter pairs); a wire Big Integer is not stored in a fixed-width integer column (R13; F29 known finding). Eighth round: KeyWrappingData rebuilt from the store passes every stored key (R14); the attribute report reads no engine field written by a request (R15).',
 'C06': ' Added: an object built from derivation output cannot hold more than the requested length (R6); every return of the symmetric cipher helpers passes finalize(), AAD is authenticated whenever given (R7). Fourth round: key material of a loaded object is never overwritten by read-only handlers (R8, lifted from C05.R7). Fifth round: reader and writer of the cryptographic payloads agree (R9, lifted from C01.R1/R2). Seventh round: derived tables (dict(self._t) + update) and callees looked up in an instance table are resolved (R1, R5); an unconditional truncation of the derivation output is accepted (R6). Eighth round: once a supported padding method is looked up a padder / unpadder runs update() and finalize() on every normal path and no handler swallows a finalize() failure (R9).',
 'C07': ' Added: every query by unique identifier compares the column with the identifier exactly as received (R6). Fourth round: Destroy issues its delete only after every refusal (R7, lifted from C08.R3). Fifth round: requests run one at a time under the engine lock (R8, lifted from C10.R1/R2). Seventh round: stores through setattr(obj, <computed name>, v) are decided from the field names the abstract interpreter derives for the computed name (R2).',
 'C09': ' Added: nothing in the package takes the database connection out of transactional mode (R4). Third round: nobody but SQLite deletes/renames/truncates files (R5). Fourth round: the session factory is bound to the create_engine result and the engine opens no connections of its own (R3). Eighth round: the data session is driven through add / add_all / query / delete / commit only - no savepoints or other transaction control (R6).',
 'C12': ' Added: every primitive stream read is checked for shortness (R7). Third round: the arms handling a failed decode never read the half-decoded request (R8). Fourth round: decoded values echoed into responses re-encode to well-formed TTLV (R9, lifted from C01.R3). Fifth round: every failed item can be encoded (R10, shared with C02.R9). Sixth round: a counted repetition (batch count) is read in full (R11); framing rules accept chunk lists joined once, bytearray buffers, unpack_from and int.from_bytes. Seventh round: BytearrayStream is folded as an abstract data type over byte windows (which bytes of which input, never their content) for 320 read/write histories, so R6 holds for any representation of the stream.',
 'C13': ' Added: identifiers kept in the placeholder or given to response payloads are strings on every path (R5); the policy queries test and look up the very name they are given (R2 tests-the-given-name). Fourth round: identifier reuse (which would collide with orphan subclass rows and end in General Failure) is excluded by AUTOINCREMENT (R6, lifted from C07.R1). Fifth round: converters never raise (R7, lifted); the schema adds no uniqueness/check constraints (R8). Sixth round: helpers of kmip.core that raise on an empty collection are called from the engine only with a collection tested for emptiness (R9). Seventh round: a positional index is bounded on both sides before it selects (R10, shared with C15.R9; F24 repaired); optional wire structures are not dereferenced in the object factory (R11; F25 repaired); results of table.get() are tested before use (R12; F28 repaired); library calls that reject request-controlled values sit in a try that answers with a KMIP error (R13; 6 known findings F27); Big Integer columns (R14, shared with C05.R13). Eighth round: attribute reads on a decoded field whose class is selected by a tag of the owner (Credential.credential_value) exist in every alternative or sit behind a test of the tag (R15).',
 'C14': ' Added: the lister includes an object only on the allowed edge of the decision taken for that object in the same iteration (R6). Third round: date bounds are tested for presence with None tests only (R7). Fourth round: the candidate loop runs to the end, no early break/return (R8). Fifth round: an attribute a stored class carries is declared applicable to that type (R9). Seventh round: the tail of Locate is folded for 36 offset/maximum combinations: the identifiers returned are those of sorted[offset:offset+maximum] whatever helper computes the bounds (R4). Eighth round: all returns of a getter arm are merged - a None among them makes the attribute unfilterable for some objects (R3).',
 'C15': ' Added: a row taken from the store is never attached to another object (R6). Third round: no failure exit of the three attribute operations is reached with a modified object (R4). Fourth round: rows of id-ordered relationships are modified in place, never replaced by index (R7). Fifth round: no-value-given is decided by None where the value can be a plain string (R8). Seventh round: an index tested against a length is also tested against 0 before it selects an instance (R9; F24 repaired in /repo).',
 'C16': ' Added: the six ProtocolVersion comparison operators, evaluated over the nine sign combinations of (major, minor), are the lexicographic order (R9). Fifth round: version-dependent readers end with the trailing-data check on every path (R10; LocateRequestPayload repaired in /repo). Sixth round: the version gate decorator and the Query operation list are decided by folding them for every supported version x threshold (R3, R4); DiscoverVersions provenance accepts copies and filtering comprehensions/loops (R5). Seventh round: the per-version attribute sets are obtained by folding is_attribute with a membership probe, module-level tables included. Eighth round: the version mapping is folded over 184 (major, minor) pairs - only supported versions map, injectively (R2); response fields the encoder writes without a version test are passed only under a version test (R11).',
 'C18': ' Added: no snapshot of the policy structures is carried across iterations of a loop that updates them (R6, a loop-carried staleness rule; straight-line staleness and general history semantics remain undecided); enum/table lookups keyed by document data convert KeyError/TypeError to ValueError (R2). Third round: no monitor structure is modified while being iterated (R7). Fourth round: restore_or_delete_policy is preceded by the disassociation of the file (R8). Fifth round: a reloaded file drops the shadowed definitions it no longer provides (R9; repaired in /repo); the engine consults the store on every decision (R10). Sixth round: the policy file reader is folded over 83 model documents: valid ones accepted, invalid ones rejected with ValueError and nothing else (R11; F23 repaired in /repo); a file that disappears loses its timestamp entry (R12). Seventh round: restore_or_delete_policy and disassociate_policy_and_file are folded over every shadow stack of up to 4 entries owned by 3 files (366 cases): exactly the entries of the file go, the last entry is restored, other policies are untouched (R5).',
 'C20': ' Added: codec-layer exception texts never format a field that can render key material (R4); no handler stores a secret-bearing value into an engine field such as the ID placeholder (R5). Third round: locals into which a message is encoded are secret sources (their str/format is the hex of the buffer). Fifth round: exceptions raised by reviewed input-quoting third-party calls (ConfigParser.get) are secret-bearing. Seventh round: values the generic client configuration getter reads are secrets (it also reads the password option) (R1); column converters raise nothing - a bind-time exception is reported by SQLAlchemy with the statement parameters and logged by the engine (R6).',
}

NOT_YET = 'check not built yet in this session (rules designed in DESIGN.md section 4); will be claimed once its check exists and is silent on the unchanged tree'
NOT_APPLICABLE = {}


TECH6 = {p: '; source canonicalisation (helper expansion, constant-table expansion, alias and comprehension lowering) before every rule' for p in CHECKS}
for _p, _t in (('C01', '; finite-domain folding over a length abstraction'), ('C02', '; finite-domain folding; path-sensitive constant propagation'), ('C03', '; exhaustive folding of the decision functions over a finite policy model'), ('C08', '; path-sensitive constant propagation over the batch loop'), ('C16', '; finite-domain folding of gate and Query'), ('C18', '; finite-domain folding of the parser over model documents'), ('C19', '; finite-domain folding of the version mapping')):
    TECH6[_p] += _t
for _p, _t in (('C12', '; abstract interpretation of BytearrayStream over byte windows'), ('C14', '; finite-domain folding of the page selection'), ('C17', '; path-sensitive simulation of authenticate()'),
               ('C18', '; folding of the shadow-stack helpers over all small stacks'), ('C05', '; path-sensitive unread-parameter analysis of the client'), ('C13', '; try-protection and None-test dominance checks over the crypto engine'),
               ('C15', '; two-sided index bound dominance'), ('C16', '; membership-probe folding of is_attribute; folding of the version mapping'), ('C06', '; must-pass-through on the CFG of the padding helper'), ('C13', '; class-membership check of reads on tag-selected fields'), ('C10', '; construction-site and lock-use census')):
    TECH6[_p] += _t


# rounds 9 and 10 (DESIGN.md 11.10, 11.11)
LATER = {
 'C01': ' Ninth round: the Template<->Attributes converters are compared element-wise for every attribute tag (R5); the text decoder yields one character per value byte for every length 0..24 (R10). Tenth round: the attribute value registries are evaluated (constructors recorded, not run) when their return statements say nothing, so table-driven registries are decided like if-chains. Eleventh round: a writer decides the presence of a field by presence alone, never by the field\'s value (R2).',
 'C03': ' Ninth round: nothing between the identity sources and the decision turns an empty group list into "no group information" (R14). Eleventh round: R14 also covers conditionals whose kept arm is derived from the tested value (list(groups) if groups else None).',
 'C04': ' Tenth round: in a handler that stores a state no failure is raised while the change is uncommitted (R7, lifted from C08.R3); a guard the analysis cannot read ends the check with an analysis error instead of a report.',
 'C05': ' Ninth round: a persisted field bound only under a test of another field of the source counts as lost (R2 conditional carry).',
 'C06': ' Ninth round: DeriveKey input selection folded over every list of 1-3 base objects with and without Derivation Data (R10).',
 'C07': ' Ninth round: nothing in the server removes or truncates store files and every start opens the store the same way (R9, lifted from C09); the object handed out by a load is the result of the query made in that call (R10). Eleventh round: the delete of Destroy selects the row by its identifier alone (R3 delete criteria).',
 'C09': ' Tenth round: R6 (no transaction control besides the one commit) also covers the data session under a local name (with ... as session).',
 'C10': ' Ninth round: no engine field that flows into a returned value is updated in place (R6). Tenth round: class-level containers changed through a local alias are shared state (R3); the session factory is a plain sessionmaker and the batch session is the context manager around the batch loop (R7).',
 'C11': ' Ninth round: session fields stored outside __init__ are definitely assigned per message before they are read (R3).',
 'C12': ' Ninth round: one character per byte in the text decoder (R12 = C01.R10). Tenth round: the maximum response size process_request hands back is a local set from this request (R5, engine side).',
 'C13': ' Ninth round: one()-style queries filter on unique columns only (R16). Tenth round: a converter of ObjectFactory reads no field of an optional key-block field without a None test (R11, F32 repaired); an object that came out of a query has only class-level attributes - plain attributes that only __init__ stores are absent (R1). Eleventh round: calendar conversions take the server clock, a value the dominating tests keep near it, or run in a try (R17; F33 repaired in /repo); a local holding an optional field is read only behind a test of that local (R11).',
 'C14': ' Ninth round: the per-attribute match test of Locate folded over small concrete values (R10). Eleventh round: the Initial Date filter folded over 105 combinations is the inclusive range (R11).',
 'C15': ' Tenth round: the property setters of the stored classes refuse a value for its type only, never for its value (R10): the in-place multi-field updates are not rolled back.',
 'C16': ' Tenth round: the two version queries of the attribute policy are folded over every (request version, rule version) pair instead of being matched by shape (R8).',
 'C17': ' Tenth round: every caller of the enable_tls_client_auth setter leaves the check on when the configuration does not mention it (R6); sessions never write to the authentication settings they share (R8, lifted from C10.R3).',
 'C18': ' Ninth round: the document family of the parser fold includes falsy non-objects at every level (R11; F31 repaired). Tenth round: the directory listing folded over a model directory names every *.json entry, whatever its size (R13).',
 'C19': ' Ninth round: no mutable default argument in the client modules (R12); optional response fields are not gated on the value of earlier fields (R11). Tenth round: result classes hand their parameters to the base constructor under the same names (R13). Eleventh round: R9 follows locals that hold item fields.',
 'C20': ' Ninth round: no raise in the readers of the secret-carrying primitives builds its text from the value bytes (R7).',
}


def main():
    props = [json.loads(l)['id'] for l in open(os.path.join(HERE, 'properties.jsonl'))]
    checks = []
    for p in props:
        if p in CHECKS:
            tech, text, note = CHECKS[p]
            checks.append({
                'property_id': p,
                'quick_cmd': 'python3 -m pv check %s --tier quick' % p,
                'thorough_cmd': 'python3 -m pv check %s --tier thorough' % p,
                'evidence_file': '/verif/evidence/%s.json' % p,
                'replay_cmd_template': 'python3 -m pv explain {path}',
                'engine': 'pv',
                'level_claimed': {'category': 'other', 'text': text + ADDED.get(p, '') + LATER.get(p, ''), 'design_ref': 'DESIGN.md section 4 %s and section 11.2' % p},
                'level_note': note,
                'technique': 'static analysis: ' + tech + TECH6.get(p, ''),
            })
    na = [{'property_id': p, 'reason': NOT_APPLICABLE.get(p, NOT_YET)} for p in props if p not in CHECKS]
    man = {
        'version': 1,
        'setup_cmd': 'true',
        'hooks': {'guard': 'PYKMIP_VERIF', 'enable': 'none - static analysis reads the source; no hooks or instrumentation exist',
                  'baseline_off_cmd': BASELINE_CMD, 'source_commits': [], 'add_only': True},
        'engines': [{'name': 'pv', 'path': '/verif/pv', 'serves_properties': sorted(CHECKS),
                     'kind_free_text': 'pure-stdlib static analyser (ast, hand-built CFG, dataflow, abstract interpretation) specific to PyKMIP'}],
        'checks': checks,
        'notes': 'All checks are static: they parse /repo/kmip from the working tree on every run and never import or execute it. '
                 'Exit 0 = all obligations discharged (known findings printed as KNOWN-FINDING), 1 = VIOLATION, 2 = ANALYSIS-ERROR '
                 '(the checker could not see what it needs; not a verdict).',
        'not_applicable': na,
    }
    with open(os.path.join(HERE, 'MANIFEST.json'), 'w') as f:
        json.dump(man, f, indent=1)
    print('MANIFEST.json: %d checks, %d not claimed' % (len(checks), len(na)))


if __name__ == '__main__':
    main()
