#!/usr/bin/env python3
"""Intake of a round of sub-agent defect deliverables.
usage: tools/seed_intake.py <srcdir> <round> <id>...
For each id: copies <srcdir>/<id>/{patch.diff,demo.py,notes.md} to seeded/<id>/, runs tools/seed_update.py (demo both ways + all 20 checks
in a scratch worktree) and records the result as the FIRST evaluation (first_evaluation_detected_by / _own_property / _errors, round)."""
import json, os, shutil, subprocess, sys
root = os.path.dirname(os.path.dirname(os.path.abspath(__file__)))
src, rnd, ids = sys.argv[1], int(sys.argv[2]), sys.argv[3:]
for sid in ids:
    d = os.path.join(root, 'seeded', sid)
    os.makedirs(d, exist_ok=True)
    for f in ('patch.diff', 'demo.py', 'notes.md'):
        shutil.copy(os.path.join(src, sid, f), d)
    subprocess.run([sys.executable, os.path.join(root, 'tools', 'seed_update.py'), sid])
    mp = os.path.join(d, 'meta.json')
    if not os.path.exists(mp):
        print(sid, 'NO META (evaluation failed)')
        continue
    m = json.load(open(mp))
    if 'first_evaluation_detected_by' not in m:
        m['first_evaluation_detected_by'] = m['detected_by']
        m['first_evaluation_own_property'] = any(x.startswith(m['property'] + '.') for x in m['detected_by'])
        m['first_evaluation_errors'] = sorted(c for c, r in m['checks_not_silent'].items() if r['exit'] == 2)
    m['round'] = rnd
    m['origin'] = ('written by a fresh sub-agent (round %d) that was given only the text of property %s and its own scratch worktree of /repo under /tmp; nothing from /verif'
                   ' (some round-9 agents also listed the one-line titles of earlier deliverables that were still lying under /tmp/seeds*, to avoid repeating them; those directories were removed when I noticed)' % (rnd, m['property'])) if rnd == 9 else m.get('origin')
    json.dump(m, open(mp, 'w'), indent=1)
