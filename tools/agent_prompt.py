#!/usr/bin/env python3
"""Print the prompt handed to a fresh sub-agent (round 6 and later).

usage: tools/agent_prompt.py defect <Cxx> <worktree> <outdir> <id1> <id2>
       tools/agent_prompt.py benign <Cxx> <worktree> <outdir> <id1> <id2>

The prompt contains only the property record from properties.jsonl and the
path of the agent's own scratch worktree - nothing about /verif's checks.
"""
import json
import os
import sys

root = os.path.dirname(os.path.dirname(os.path.abspath(__file__)))
mode, pid, wt, out, id1, id2 = sys.argv[1:7]
prop = None
for line in open(os.path.join(root, 'properties.jsonl')):
    d = json.loads(line)
    if d['id'] == pid:
        prop = d
text = json.dumps(prop, indent=1)

COMMON = """You are working on a copy of the open-source project OpenKMIP/PyKMIP (a pure-Python implementation of the KMIP key-management protocol: TTLV codec, payloads, client, SQLite-backed server engine).

Your private scratch git worktree is: {wt}
Work ONLY inside that directory (and write your deliverables to {out}/). Never touch /repo or /verif, never look into /verif. Use /venv/bin/python to run PyKMIP and its tests (the package in /venv is an editable install of /repo, so to run YOUR tree use `cd {wt} && PYTHONPATH={wt} /venv/bin/python ...`; check `python -c 'import kmip; print(kmip.__file__)'` prints a path under {wt}). There is no network. The unit suite is `cd {wt} && PYTHONPATH={wt} /venv/bin/python -m pytest -q -p no:cacheprovider --timeout=900 kmip/tests/unit` (about 75 s; on the unchanged tree: 3358 passed, 2 failed - test_server.py::TestKmipServer::test_start and test_kmip_client.py::TestKMIPClient::test_socket_ssl_wrap always fail in this sandbox and do not count).

This is the semantic property of PyKMIP that this task is about (JSON record: statement, what it quantifies over, why the existing tests cannot settle it, the code it is anchored in):

{text}
"""

DEFECT = COMMON + """
TASK. Produce TWO independent changes to PyKMIP (non-test code under kmip/), each of which BREAKS this property while the code still imports/compiles and the existing unit suite still passes unchanged (same 3358 passed / same 2 failures; do not edit tests). The two changes must differ from each other in kind: different file or function, different clause of the property, different mechanism.

Each change must look like something a maintainer could plausibly commit by mistake (a refactoring gone subtly wrong, an optimisation, a "cleanup", a half-finished feature, a wrong-but-reasonable edge-case decision) - not sabotage with an obvious marker, no comments that announce the defect. It must NOT be exposed by ordinary use at once: it should need something specific to manifest - a particular interleaving of sessions, a crash or fault at a particular point, a multi-step sequence of operations, an unusual but legal input or configuration, a particular KMIP version/field combination, or two cooperating sites that each look fine alone. Prefer defects located in the real mechanism the property rests on (read the anchored code first), and vary where you plant them: anywhere in kmip/ that the property depends on is fair game, including helper modules, tables, factories, SQL types, the client, config, the session, the policy monitor.

For each change deliver, under {out}/<id>/ (ids: {id1} and {id2}):
  patch.diff   - `git diff` of your worktree for that change alone (relative to the worktree's HEAD; must apply with `git apply` to a clean checkout of HEAD). The two patches are independent: each applies alone to HEAD.
  demo.py      - a self-contained demonstration program run as `cd <tree> && PYTHONPATH=<tree> /venv/bin/python demo.py` that exits 0 on the unchanged tree and exits non-zero (assertion failure with a clear message) on the tree with the change. It must exercise the real code (engine / session / codec / client objects; an in-memory or temp-file SQLite database and mocks for sockets are fine), be deterministic, finish in under 60 s, and need no network. It must import kmip from the current directory's tree (do not hard-code {wt}).
  notes.md     - first line: a one-line title of the defect. Then sections: "## The change", "## Which clause breaks, and why", "## What it needs to manifest", "## Why the existing tests do not notice".

Before you finish, verify for EACH change, starting from a clean tree (`git -C {wt} checkout -- . && git -C {wt} clean -fdq`): apply the patch alone; run the full unit suite (must be 3358 passed, the same 2 failures); run demo.py (must fail); revert; run demo.py (must pass). Leave the worktree clean (`git checkout -- .`) at the end. Report, for each id, the title, the files changed and the verification results. Do not commit anything and do NOT use `git stash` (the stash is shared between worktrees of other people working in parallel): to set a change aside use `git diff > file; git checkout -- .` and `git apply file`.
"""

BENIGN = COMMON + """
TASK. Produce TWO independent changes to PyKMIP (non-test code under kmip/) that touch the code this property is anchored in and that KEEP the property true: honest, behaviour-preserving or behaviour-extending maintenance work of the kind that appears in the project's history. Examples of what is wanted: a refactoring (extract a helper method, inline one, rename locals/parameters/private helpers, split a long handler, turn an if/elif chain into early returns or a lookup, restructure a try block without changing what is caught, replace a loop by a comprehension or the reverse, hoist a repeated expression into a local, reorder independent statements), a modernisation (f-strings, `super()` without arguments, `isinstance` tuple forms, context managers), improved error messages or extra DEBUG logging that reveals nothing secret, a small new feature that does not weaken the property (for instance support for one more attribute or option done correctly on every path the property cares about), a performance tweak. Each change should be substantial enough to be interesting (roughly 15-120 changed lines in the anchored code), realistic, and written the way a careful maintainer would write it. The two changes must differ in kind and touch different functions/files.

The property must hold on the changed tree just as on the unchanged one - you are NOT planting a defect. Think about it adversarially and convince yourself that no clause of the property is weakened, for every input/history/schedule it quantifies over.

For each change deliver, under {out}/<id>/ (ids: {id1} and {id2}):
  patch.diff   - `git diff` of your worktree for that change alone (relative to the worktree's HEAD; must apply with `git apply` to a clean checkout of HEAD). The two patches are independent: each applies alone to HEAD.
  notes.md     - first line: a one-line title of the change. Then sections: "## The change", "## Why the property still holds" (clause by clause for the clauses the touched code carries), "## What I ran".

Before you finish, verify for EACH change, starting from a clean tree (`git -C {wt} checkout -- . && git -C {wt} clean -fdq`): apply the patch alone; run the full unit suite (must be 3358 passed, the same 2 failures; do not edit tests); exercise the touched code path at least once with a small ad-hoc script to see it still behaves as before. Leave the worktree clean (`git checkout -- .`) at the end. Report, for each id, the title, files changed and verification results. Do not commit anything and do NOT use `git stash` (the stash is shared between worktrees of other people working in parallel): to set a change aside use `git diff > file; git checkout -- .` and `git apply file`.
"""

print((DEFECT if mode == 'defect' else BENIGN).format(wt=wt, out=out, text=text, id1=id1, id2=id2))
