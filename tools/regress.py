#!/usr/bin/env python3
"""Fast regression over every kept seed (must be reported by the check of its own property) and every kept benign change
(all 20 checks must stay exit 0).  Patched copies of /repo/kmip (tests excluded) are materialised under /tmp/pt/<id>
(scratch, rebuilt when missing); checks run in parallel in-process-per-job via `python3 -m pv check ... --no-write`.

usage: tools/regress.py [--seeds] [--benign] [--only ID ...] [--props C01 ...] [-j N]
"""
import argparse, json, os, re, shutil, subprocess, sys
from concurrent.futures import ThreadPoolExecutor
ROOT = os.path.dirname(os.path.dirname(os.path.abspath(__file__)))
PT = '/tmp/pt'
PROPS = ['C%02d' % i for i in range(1, 21)]


def head():
    return subprocess.run(['git', '-C', '/repo', 'rev-parse', 'HEAD'], capture_output=True, text=True).stdout.strip()


def materialise(kind, sid, h):
    d = os.path.join(PT, kind + '_' + sid)
    stamp = os.path.join(d, '.stamp')
    patch = os.path.join(ROOT, 'seeded' if kind == 's' else 'benign', sid, 'patch.diff')
    want = h + ' ' + str(os.path.getmtime(patch))
    if os.path.exists(stamp) and open(stamp).read() == want:
        return d
    shutil.rmtree(d, ignore_errors=True)
    os.makedirs(d)
    subprocess.run(['rsync', '-a', '--exclude', 'tests', '--exclude', '__pycache__', '/repo/kmip', d + '/'], check=True)
    r = subprocess.run(['patch', '-p1', '-s', '--no-backup-if-mismatch', '-i', patch], cwd=d, capture_output=True, text=True)
    if r.returncode != 0 and 'tests' not in r.stdout + r.stderr:
        print('PATCH PROBLEM', sid, (r.stdout + r.stderr)[-300:])
    open(stamp, 'w').write(want)
    return d


def run(job):
    kind, sid, d, props = job
    res = {p: [0, []] for p in props}
    if len(props) == len(PROPS):
        cmds = [('all', props)]
    else:
        cmds = [(p, [p]) for p in props]
    for arg, ps in cmds:
        r = subprocess.run([sys.executable, '-m', 'pv', 'check', arg, '--no-write'], cwd=ROOT, env=dict(os.environ, PV_REPO=d),
                           capture_output=True, text=True)
        for l in (r.stdout + r.stderr).splitlines():
            m = re.match(r'VIOLATION property=(C\d\d)', l)
            if m and m.group(1) in res:
                res[m.group(1)][0] = max(res[m.group(1)][0], 1)
            m = re.match(r'ANALYSIS-ERROR property=(C\d\d)', l)
            if m and m.group(1) in res:
                res[m.group(1)][0] = 2
                res[m.group(1)][1].append(l.strip()[:230])
            m = re.match(r'  (C\d\d)\.', l)
            if m and m.group(1) in res:
                res[m.group(1)][1].append(l.strip()[:230])
    return [(kind, sid, p, v[0], v[1]) for p, v in res.items()]


def main():
    ap = argparse.ArgumentParser()
    ap.add_argument('--seeds', action='store_true'); ap.add_argument('--benign', action='store_true')
    ap.add_argument('--only', nargs='*'); ap.add_argument('--props', nargs='*'); ap.add_argument('-j', type=int, default=16)
    ap.add_argument('-v', action='store_true')
    ap.add_argument('--write-meta', action='store_true', help='refresh detected_by / checks_not_silent of seeded/<id>/meta.json and not_silent_now of benign/<id>/meta.json from this run (all properties only)')
    a = ap.parse_args()
    if not a.seeds and not a.benign:
        a.seeds = a.benign = True
    h = head()
    os.makedirs(PT, exist_ok=True)
    jobs = []
    ids = []
    if a.seeds:
        ids += [('s', s) for s in sorted(os.listdir(os.path.join(ROOT, 'seeded')))]
    if a.benign:
        ids += [('b', s) for s in sorted(os.listdir(os.path.join(ROOT, 'benign')))]
    if a.only:
        ids = [x for x in ids if x[1] in a.only]
    if a.props and not a.only:
        ids = [x for x in ids if x[0] == 'b' or x[1][:3] in a.props]
    with ThreadPoolExecutor(a.j) as ex:
        dirs = list(ex.map(lambda x: materialise(x[0], x[1], h), ids))
    for (kind, sid), d in zip(ids, dirs):
        jobs.append((kind, sid, d, a.props or PROPS))
    with ThreadPoolExecutor(a.j) as ex:
        res = [x for l in ex.map(run, jobs) for x in l]
    by = {}
    for kind, sid, prop, rc, finds in res:
        by.setdefault((kind, sid), {})[prop] = (rc, finds)
    bad = 0
    # compare with the last recorded results: report every (id, property) whose exit status changed
    basef = os.path.join(PT, 'last.json')
    base = json.load(open(basef)) if os.path.exists(basef) else {}
    for (kind, sid), r in sorted(by.items()):
        for p, (rc, f) in sorted(r.items()):
            old = base.get(kind + sid, {}).get(p)
            if old is not None and old != rc:
                print('CHANGED %s %s %s: %s -> %s %s' % ('seed' if kind == 's' else 'benign', sid, p, old, rc, (f[:1] or [''])[0][:150]))
    for (kind, sid), r in by.items():
        base.setdefault(kind + sid, {}).update({p: v[0] for p, v in r.items()})
    json.dump(base, open(basef, 'w'))
    for (kind, sid), r in sorted(by.items()):
        if kind == 's':
            own = sid[:3]
            own_rc = r.get(own, (None, []))[0]
            others = sorted(p for p, (rc, _) in r.items() if rc == 1 and p != own)
            errs = sorted(p for p, (rc, _) in r.items() if rc == 2)
            status = 'own' if own_rc == 1 else ('other' if others else 'MISSED')
            if status != 'own':
                bad += 1
            if status != 'own' or a.v:
                print('seed   %-5s %-6s own=%s others=%s errors=%s' % (sid, status, own_rc, others, errs))
                if a.v:
                    for p, (rc, f) in sorted(r.items()):
                        for x in f[:3]:
                            print('         ', p, x)
        else:
            noisy = {p: v for p, v in r.items() if v[0] != 0}
            if noisy:
                bad += 1
                print('benign %-5s NOISY  %s' % (sid, {p: v[0] for p, v in sorted(noisy.items())}))
                if a.v:
                    for p, (rc, f) in sorted(noisy.items()):
                        for x in f[:4]:
                            print('         ', p, x)
            elif a.v:
                print('benign %-5s silent' % sid)
    if a.write_meta and not a.props:
        for (kind, sid), r in sorted(by.items()):
            mp = os.path.join(ROOT, 'seeded' if kind == 's' else 'benign', sid, 'meta.json')
            if not os.path.exists(mp):
                continue
            m = json.load(open(mp))
            if kind == 's':
                checks, det = {}, []
                for p, (rc, f) in sorted(r.items()):
                    if rc == 0:
                        continue
                    fl = []
                    for x in f:
                        if x.startswith('ANALYSIS-ERROR'):
                            checks.setdefault(p, {})['error'] = x[:300]
                            continue
                        parts = x.split('  ')
                        if len(parts) >= 2:
                            fl.append((parts[0].strip() + ' ' + parts[1].split('  at ')[0].strip())[:160])
                    checks.setdefault(p, {}).update({'exit': rc, 'findings': fl})
                    if rc == 1:
                        seen = []
                        for x in fl:
                            if x.split(' ')[0] not in [y.split(' ')[0] for y in seen]:
                                seen.append(x)
                        det += seen[:3]
                m['checks_not_silent'] = checks
                m['detected_by'] = det
                m['detected'] = bool(det)
            else:
                m['not_silent_now'] = {p: rc for p, (rc, f) in sorted(r.items()) if rc != 0}
            json.dump(m, open(mp, 'w'), indent=1)
    ns = sum(1 for k in by if k[0] == 's'); nb = sum(1 for k in by if k[0] == 'b')
    print('%d seeds, %d benign; %d not as wanted' % (ns, nb, bad))
    return 0


if __name__ == '__main__':
    sys.exit(main())
