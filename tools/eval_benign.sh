#!/bin/bash
# usage: tools/eval_benign.sh <id> [--tests]   benign/<id>/patch.diff is applied to a fresh scratch worktree of /repo HEAD; all 20 quick checks must stay exit 0.
# With --tests the pinned unit suite is run on the patched tree as well.  The worktree is removed afterwards.
id=$1; d=/verif/benign/$id; wt=/tmp/evb/$id
mkdir -p /tmp/evb; git -C /repo worktree remove --force $wt >/dev/null 2>&1; git -C /repo worktree add -q --detach $wt HEAD || exit 2
cd $wt
if ! git apply --check $d/patch.diff 2>/dev/null; then echo "$id PATCH DOES NOT APPLY"; git -C /repo worktree remove --force $wt; exit 2; fi
git apply $d/patch.diff
if [ "$2" = "--tests" ]; then
  PYTHONPATH=$wt /venv/bin/python -m pytest -q -p no:cacheprovider --timeout=900 kmip/tests/unit 2>&1 | tail -1 | sed "s/^/$id tests: /"
fi
cd /verif
bad=0
for p in C01 C02 C03 C04 C05 C06 C07 C08 C09 C10 C11 C12 C13 C14 C15 C16 C17 C18 C19 C20; do
  PV_REPO=$wt python3 -m pv check $p --no-write > /tmp/evb/$id.$p.txt 2>&1; rc=$?
  if [ $rc -ne 0 ]; then bad=1; echo "$id $p exit=$rc"; grep -E "^  C|ANALYSIS" /tmp/evb/$id.$p.txt | cut -c1-400 | head -5; fi
done
[ $bad = 0 ] && echo "$id all 20 checks silent"
git -C /repo worktree remove --force $wt
