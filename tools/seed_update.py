#!/usr/bin/env python3
"""Re-evaluate seeds (tools/eval_seed.sh in a fresh scratch worktree) and refresh detected_by / demo results in seeded/<id>/meta.json.
usage: tools/seed_update.py [id ...]   (default: all)"""
import json
import os
import re
import subprocess
import sys
root = os.path.dirname(os.path.dirname(os.path.abspath(__file__)))
ids = sys.argv[1:] or sorted(os.listdir(os.path.join(root, 'seeded')))
for sid in ids:
    d = os.path.join(root, 'seeded', sid)
    out = subprocess.run(['bash', os.path.join(root, 'tools', 'eval_seed.sh'), d + '/patch.diff', d + '/demo.py', sid], capture_output=True, text=True).stdout
    mp = d + '/meta.json'
    m = json.load(open(mp)) if os.path.exists(mp) else {'id': sid, 'property': sid[:3]}
    w = re.search(r'== demo with change\nexit=(\d+)', out)
    wo = re.search(r'== demo without change\nexit=(\d+)', out)
    if not w or not wo:
        print(sid, 'EVALUATION FAILED\n', out[-600:])
        continue
    m['demo_exit_with_change'], m['demo_exit_without_change'] = int(w.group(1)), int(wo.group(1))
    notes = open(d + '/notes.md').read() if os.path.exists(d + '/notes.md') else ''
    if not m.get('title'):
        m['title'] = (notes.strip().splitlines() or [''])[0].lstrip('# ').strip()
    if not m.get('needs_to_manifest'):
        nm = re.search(r'^#+ [^\n]*manifest[^\n]*\n(.*?)(?=^#+ |\Z)', notes, re.S | re.M | re.I)
        m['needs_to_manifest'] = ' '.join(nm.group(1).split())[:1200] if nm else ''
    m.setdefault('files_changed', [l.split(' b/')[-1].strip() for l in open(d + '/patch.diff') if l.startswith('diff --git')])
    m.setdefault('origin', 'written by a fresh sub-agent that was given only the text of property %s (round 2: plus the one-line title of the round-1 seed, to ask for a defect different in kind) and its own scratch worktree of /repo under /tmp; nothing from /verif' % m['property'])
    m['what_i_ran'] = ['tools/seed_accept.sh %s  = tools/seed_update.py (fresh detached worktree of /repo HEAD under /tmp/ev: git apply patch.diff; demo.py -> exit %s; git apply -R; demo.py -> exit %s; patch re-applied; PV_REPO=<worktree> python3 -m pv check C01..C20 --no-write; worktree removed) and tools/seed_tests.sh (fresh worktree under /tmp/evt with the patch: pinned unit suite -> 3358 passed, the 2 baseline failures; worktree removed)' % (sid, w.group(1), wo.group(1))]
    checks = {}
    cur = None
    for line in out.split('== checks against seeded tree')[-1].splitlines():
        mm = re.match(r'(C\d\d) exit=(\d+)', line)
        if mm:
            cur = mm.group(1)
            checks[cur] = {'exit': int(mm.group(2)), 'findings': []}
        elif cur and line.startswith('  C'):
            parts = line.split('  ')
            checks[cur]['findings'].append((parts[1].strip() + ' ' + parts[2].split('  at ')[0].strip())[:160])
        elif cur and line.startswith('ANALYSIS-ERROR'):
            checks[cur]['error'] = line[:300]
    m['checks_not_silent'] = checks
    by = []
    for c, r in sorted(checks.items()):
        if r['exit'] == 1:
            seen = []
            for f in r['findings']:
                rule = f.split(' ')[0]
                if rule not in [s.split(' ')[0] for s in seen]:
                    seen.append(f)
            by += seen[:3]
    m['detected_by'] = by
    m['detected'] = bool(by)
    json.dump(m, open(mp, 'w'), indent=1)
    print(sid, 'demo', m['demo_exit_with_change'], m['demo_exit_without_change'], '->', '; '.join(by) or 'NOT REPORTED', {c: r['exit'] for c, r in checks.items()})
